package main

import (
	"bytes"
	"encoding/xml"
	"fmt"
	"io"
	"reflect"
	"sort"
	"strings"

	"github.com/emersion/go-webdav/internal"
)

// C15: internal.RawXMLValue capture / replay / token reader

type xNode struct {
	elem     bool
	space    string
	local    string
	attrs    [][3]string
	children []*xNode
	kind     int // leaf: 0 chardata 1 comment 2 procinst 3 directive
	data     string
}

func isNsDecl(a xml.Attr) bool {
	return a.Name.Space == "xmlns" || (a.Name.Space == "" && a.Name.Local == "xmlns")
}

// independent reader: namespace-expanded tree of the first element of a token stream
func readTree(next func() (xml.Token, error)) (*xNode, error) {
	var stack []*xNode
	var root *xNode
	for {
		tok, err := next()
		if err == io.EOF {
			break
		}
		if err != nil {
			return nil, err
		}
		switch t := tok.(type) {
		case xml.StartElement:
			n := &xNode{elem: true, space: t.Name.Space, local: t.Name.Local}
			for _, a := range t.Attr {
				if !isNsDecl(a) {
					n.attrs = append(n.attrs, [3]string{a.Name.Space, a.Name.Local, a.Value})
				}
			}
			sort.Slice(n.attrs, func(i, j int) bool {
				return n.attrs[i][0]+"\x00"+n.attrs[i][1] < n.attrs[j][0]+"\x00"+n.attrs[j][1]
			})
			if len(stack) > 0 {
				p := stack[len(stack)-1]
				p.children = append(p.children, n)
			} else if root == nil {
				root = n
			}
			stack = append(stack, n)
		case xml.EndElement:
			if len(stack) == 0 {
				return nil, fmt.Errorf("unbalanced end")
			}
			top := stack[len(stack)-1]
			if top.space != t.Name.Space || top.local != t.Name.Local {
				return nil, fmt.Errorf("mismatched end")
			}
			stack = stack[:len(stack)-1]
			if len(stack) == 0 {
				return root, nil
			}
		default:
			if len(stack) == 0 {
				continue
			}
			p := stack[len(stack)-1]
			var leaf *xNode
			switch t := tok.(type) {
			case xml.CharData:
				leaf = &xNode{kind: 0, data: string(t)}
			case xml.Comment:
				leaf = &xNode{kind: 1, data: string(t)}
			case xml.ProcInst:
				leaf = &xNode{kind: 2, data: t.Target + "\x00" + string(t.Inst)}
			case xml.Directive:
				leaf = &xNode{kind: 3, data: string(t)}
			}
			if leaf == nil {
				continue
			}
			if leaf.kind == 0 {
				if leaf.data == "" {
					continue
				}
				if k := len(p.children); k > 0 && !p.children[k-1].elem && p.children[k-1].kind == 0 {
					p.children[k-1].data += leaf.data // adjacent character data is one text node
					continue
				}
			}
			p.children = append(p.children, leaf)
		}
	}
	if root == nil || len(stack) != 0 {
		return nil, fmt.Errorf("unbalanced: %d open", len(stack))
	}
	return root, nil
}

func sxNode(n *xNode) string {
	if !n.elem {
		return sx("l", fmt.Sprint(n.kind), hx(n.data))
	}
	var attrs, ch []string
	for _, a := range n.attrs {
		attrs = append(attrs, sx(hx(a[0]), hx(a[1]), hx(a[2])))
	}
	for _, c := range n.children {
		ch = append(ch, sxNode(c))
	}
	return sx("e", hx(n.space), hx(n.local), sxl(attrs), sxl(ch))
}

type rawHolder struct {
	XMLName xml.Name
	Raw     []internal.RawXMLValue `xml:",any"`
}

func treeOfBytes(b []byte) (*xNode, error) {
	d := xml.NewDecoder(bytes.NewReader(b))
	return readTree(d.Token)
}

func emitRawRt(o *Out, inner string) {
	doc := `<holder xmlns:h="urn:holder" xmlns="urn:outer-default">` + inner + `</holder>`
	// the element as the original document states it
	orig, err := treeOfBytes([]byte(doc))
	if err != nil || len(orig.children) == 0 {
		o.Stat("rawxml.generator-rejected")
		return
	}
	var first *xNode
	for _, c := range orig.children {
		if c.elem {
			first = c
			break
		}
	}
	if first == nil {
		o.Stat("rawxml.generator-rejected")
		return
	}
	res := guard(func() string {
		var h rawHolder
		if err := xml.Unmarshal([]byte(doc), &h); err != nil || len(h.Raw) == 0 {
			return "capture-failed"
		}
		raw := &h.Raw[0]
		out, err := xml.Marshal(raw)
		m := "marshal-failed"
		if err == nil {
			if t, err := treeOfBytes(out); err == nil {
				m = sxNode(t)
			} else {
				m = "marshal-unreadable"
			}
		}
		// token reader: balanced, finite, same tree
		tr := raw.TokenReader()
		count := 0
		var toks []xml.Token
		for {
			tok, err := tr.Token()
			if err == io.EOF {
				break
			}
			if err != nil {
				return m + " reader-error 0"
			}
			toks = append(toks, xml.CopyToken(tok))
			count++
			if count > 100000 {
				return m + " reader-endless 0"
			}
		}
		i := 0
		t2, err := readTree(func() (xml.Token, error) {
			if i >= len(toks) {
				return nil, io.EOF
			}
			i++
			return toks[i-1], nil
		})
		if err != nil {
			return m + " reader-unbalanced 0"
		}
		bal := "1"
		if i != len(toks) {
			bal = "0"
		}
		if rawReuse(doc) {
			return "earlier-capture-changed-by-a-later-one"
		}
		return m + " " + sxNode(t2) + " " + bal
	})
	o.Stat("rawxml." + strings.Fields(res + " x")[len(strings.Fields(res+" x"))-2])
	o.Emit("raw.rt", sxNode(first), res)
}

// One variable captures document after document while a by-value copy of the previous capture is kept (as the library
// itself does when it appends captured values to Prop.Raw): what the kept copy writes out must not change.
var rawReuseHolder struct {
	Raw internal.RawXMLValue `xml:",any"`
}
var rawKept *internal.RawXMLValue
var rawKeptOut string

func rawReuse(doc string) (aliased bool) {
	defer func() {
		if r := recover(); r != nil {
			aliased = false
		}
	}()
	if err := xml.Unmarshal([]byte(doc), &rawReuseHolder); err != nil {
		return false
	}
	if rawKept != nil {
		if now, err := xml.Marshal(rawKept); err != nil || string(now) != rawKeptOut {
			aliased = true
		}
	}
	kept := rawReuseHolder.Raw
	rawKept = &kept
	out, _ := xml.Marshal(rawKept)
	rawKeptOut = string(out)
	return aliased
}

var rawPieces = []string{
	`<a/>`, `<a></a>`, `<a>text</a>`, `<a> <b/> </a>`, `<D:a xmlns:D="DAV:"/>`, `<a xmlns="urn:x"><b/></a>`, `<a xmlns=""><b xmlns="urn:y"/></a>`,
	`<h:a/>`, `<a h:attr="1" plain="2"/>`, `<a xml:lang="en" xml:space="preserve"> x </a>`, `<a><!-- comment --></a>`, `<a><?pi data?></a>`,
	`<a><![CDATA[<raw> & ]]></a>`, `<a>&lt;&amp;&#x41;&#10;</a>`, `<p:a xmlns:p="urn:p"><p:b p:c="d"/><q:e xmlns:q="urn:q" xmlns:p="urn:p2"><p:f/></q:e></p:a>`,
	`<a xmlns:D="DAV:"><D:b><c xmlns="DAV:"><d xmlns=""/></c></D:b></a>`, `<a>é世&#x1F600;</a>`, `<a b="&quot;&lt;&#9;"/>`, `<a>x<b/>y<c/>z</a>`,
	`<a><![CDATA[a]]><![CDATA[b]]>c</a>`, `<a xmlns:x="urn:1"><x:b xmlns:x="urn:2"/><x:c/></a>`,
	// attributes whose names LOOK like namespace declarations but are ordinary attributes in a namespace (a prefixed
	// attribute with the local name xmlns), and attributes with the same local name in different namespaces
	`<x:note xmlns:x="urn:x" xmlns:m="urn:meta" m:xmlns="legacy" m:id="7"/>`, `<a xmlns:m="urn:meta" m:xmlns="v"><b m:xmlns="w" xmlns="urn:d"/></a>`,
	`<a xmlns:p="urn:p" xmlns:q="urn:q" p:id="1" q:id="2" id="3"/>`,
}

func randXML(r *RNG, depth int) string {
	names := []string{"a", "b", "D:c", "p:d", "e"}
	n := r.Pick(names)
	var b strings.Builder
	b.WriteString("<" + n)
	if strings.HasPrefix(n, "D:") || r.Chance(15) {
		b.WriteString(` xmlns:D="DAV:"`)
	}
	if strings.HasPrefix(n, "p:") || r.Chance(10) {
		b.WriteString(` xmlns:p="` + r.Pick([]string{"urn:p", "urn:p2"}) + `"`)
	}
	if r.Chance(20) {
		b.WriteString(` xmlns="` + r.Pick([]string{"", "urn:x", "DAV:"}) + `"`)
	}
	if r.Chance(30) {
		b.WriteString(` k="` + r.Pick([]string{"v", "", "&amp;&lt;", "é"}) + `"`)
	}
	if r.Chance(15) {
		b.WriteString(` D:k2="w" xmlns:D="DAV:"`)
	}
	if r.Chance(12) {
		// the same local name in no namespace and in a namespace (also the predeclared xml: one), two namespaces
		b.WriteString(r.Pick([]string{` id="1" q:id="2" xmlns:q="urn:q"`, ` lang="x" xml:lang="en"`, ` q1:ref="r1" q2:ref="r2" xmlns:q1="urn:q1" xmlns:q2="urn:q2"`}))
	}
	if r.Chance(15) && depth > 0 {
		b.WriteString("/>")
		return b.String()
	}
	b.WriteString(">")
	for i := r.Range(0, 4); i > 0; i-- {
		switch k := r.Intn(10); {
		case k < 4 && depth < 6:
			b.WriteString(randXML(r, depth+1))
		case k < 6:
			b.WriteString(r.Pick([]string{"text", " ", "\n  ", "&amp;", "é", "a&#x20;b"}))
		case k < 7:
			b.WriteString("<!--" + r.Pick([]string{"c", " ", "x y"}) + "-->")
		case k < 8:
			b.WriteString("<![CDATA[" + r.Pick([]string{"x", "<&>", ""}) + "]]>")
		case k < 9:
			b.WriteString("<?t i?>")
		}
	}
	b.WriteString("</" + n + ">")
	return b.String()
}

type typedCase struct {
	name string
	doc  string
	mk   func() interface{}
}

func abortedRawDecode() {
	defer func() { recover() }()
	var p internal.Prop
	doc := `<D:prop xmlns:D="DAV:"><D:current-user-principal><D:href>http://[::1/x</D:href><D:unauthenticated/><D:more><D:deep/></D:more></D:current-user-principal></D:prop>`
	if err := xml.Unmarshal([]byte(doc), &p); err != nil || len(p.Raw) == 0 {
		return
	}
	var cup internal.CurrentUserPrincipal
	p.Raw[0].Decode(&cup) // fails in Href.UnmarshalText while the rest of the element is still unread
}

// Prop.Decode picks the captured value by its namespace-expanded name among ALL the children of a prop element: what
// it decodes equals what decoding that one element directly yields, whatever else stands next to it (same local name
// in another namespace before it, after it, unrelated elements, text)
func emitRawPropDecode(o *Out, name, siblings, wanted string, mk func() interface{}) {
	res := guard(func() string {
		direct := mk()
		errD := xml.Unmarshal([]byte(wanted), direct)
		var p internal.Prop
		if err := xml.Unmarshal([]byte(`<D:prop xmlns:D="DAV:">`+siblings+`</D:prop>`), &p); err != nil {
			return "capture-failed"
		}
		for k := 0; k < 2; k++ {
			abortedRawDecode()
		}
		via := mk()
		errV := p.Decode(via)
		if (errD == nil) != (errV == nil) {
			return fmt.Sprintf("differ-error(%v/%v)", errD != nil, errV != nil)
		}
		if errD == nil && !reflect.DeepEqual(direct, via) {
			return "differ"
		}
		return "same"
	})
	o.Emit("raw.typed", hx(name)+" "+hx(siblings), res)
}

func emitRawTyped(o *Out, tc typedCase) {
	res := guard(func() string {
		direct := tc.mk()
		errD := xml.Unmarshal([]byte(tc.doc), direct)
		var p internal.Prop
		wrapped := `<D:prop xmlns:D="DAV:">` + tc.doc + `</D:prop>`
		if err := xml.Unmarshal([]byte(wrapped), &p); err != nil || len(p.Raw) == 0 {
			return "capture-failed"
		}
		via := tc.mk()
		var raw *internal.RawXMLValue
		for i := range p.Raw {
			if _, ok := p.Raw[i].XMLName(); ok {
				raw = &p.Raw[i]
				break
			}
		}
		if raw == nil {
			return "capture-failed"
		}
		// history: decodes that broke off INSIDE a child element of an unrelated captured value come first (whatever a
		// decoder keeps between calls - a pooled reader, a buffer - must not show in the next value decoded)
		for k := 0; k < 3; k++ {
			abortedRawDecode()
		}
		errV := raw.Decode(via)
		if (errD == nil) != (errV == nil) {
			return fmt.Sprintf("differ-error(%v/%v)", errD != nil, errV != nil)
		}
		if errD == nil && !reflect.DeepEqual(direct, via) {
			return "differ"
		}
		return "same"
	})
	o.Emit("raw.typed", hx(tc.name)+" "+hx(tc.doc), res)
}

func famRawXML(o *Out, r *RNG, thorough bool) {
	for _, p := range rawPieces {
		emitRawRt(o, p)
		for _, q := range rawPieces[:8] {
			emitRawRt(o, `<w xmlns:w2="urn:w">`+p+q+`</w>`)
		}
	}
	// every nesting depth: chains far deeper than any property value (with namespaces changing on the way down and
	// something to lose at the bottom)
	for _, depth := range []int{30, 64, 99, 100, 101, 128, 150, 256, 400, 1000} {
		var b strings.Builder
		for i := 0; i < depth; i++ {
			switch i % 3 {
			case 0:
				fmt.Fprintf(&b, `<n%d xmlns="urn:l%d">`, i, i%7)
			case 1:
				fmt.Fprintf(&b, `<p:n%d xmlns:p="urn:p%d" id="%d">`, i, i%5, i)
			default:
				fmt.Fprintf(&b, `<n%d>t%d`, i, i)
			}
		}
		b.WriteString(`<leaf a="bottom">text at the bottom<!-- c --></leaf>`)
		for i := depth - 1; i >= 0; i-- {
			if i%3 == 1 {
				fmt.Fprintf(&b, `</p:n%d>`, i)
			} else {
				fmt.Fprintf(&b, `</n%d>`, i)
			}
		}
		emitRawRt(o, b.String())
	}
	n := 3000
	if thorough {
		n = 60000
	}
	for i := 0; i < n; i++ {
		emitRawRt(o, randXML(r, 0))
	}
	// typed property structures decoded via a raw value vs directly
	dav := ` xmlns:D="DAV:"`
	cases := []typedCase{
		{"GetETag", `<D:getetag` + dav + `>"a\"b"</D:getetag>`, func() interface{} { return &internal.GetETag{} }},
		{"GetETag-bad", `<D:getetag` + dav + `>unquoted</D:getetag>`, func() interface{} { return &internal.GetETag{} }},
		{"GetContentLength", `<getcontentlength xmlns="DAV:"> 42 </getcontentlength>`, func() interface{} { return &internal.GetContentLength{} }},
		{"GetContentLength-bad", `<D:getcontentlength` + dav + `>x</D:getcontentlength>`, func() interface{} { return &internal.GetContentLength{} }},
		{"GetLastModified", `<D:getlastmodified` + dav + `>Sun, 10 Mar 2024 01:00:00 GMT</D:getlastmodified>`, func() interface{} { return &internal.GetLastModified{} }},
		{"GetContentType", `<D:getcontenttype` + dav + `>text/x; a="&lt;"</D:getcontenttype>`, func() interface{} { return &internal.GetContentType{} }},
		{"ResourceType", `<D:resourcetype` + dav + `><D:collection/><C:calendar xmlns:C="urn:ietf:params:xml:ns:caldav"/> <x xmlns=""/></D:resourcetype>`, func() interface{} { return &internal.ResourceType{} }},
		{"DisplayName", `<D:displayname` + dav + `> a <![CDATA[<b>]]> &amp; </D:displayname>`, func() interface{} { return &internal.DisplayName{} }},
		{"CurrentUserPrincipal", `<D:current-user-principal` + dav + `><D:href>/p%20q/</D:href></D:current-user-principal>`, func() interface{} { return &internal.CurrentUserPrincipal{} }},
		{"CurrentUserPrincipal-unauth", `<current-user-principal xmlns="DAV:"><unauthenticated/></current-user-principal>`, func() interface{} { return &internal.CurrentUserPrincipal{} }},
		{"Error", `<D:error` + dav + `><C:valid-calendar-data xmlns:C="urn:ietf:params:xml:ns:caldav"/><D:x a="b">t</D:x></D:error>`, func() interface{} { return &internal.Error{} }},
		{"wrong-name", `<D:getetag` + dav + `>"a"</D:getetag>`, func() interface{} { return &internal.DisplayName{} }},
		// no default namespace anywhere: an unprefixed child is in NO namespace (and must stay there)
		{"ResourceType-nons-child", `<D:resourcetype` + dav + `><collection/><D:collection/></D:resourcetype>`, func() interface{} { return &internal.ResourceType{} }},
		{"Error-nons-child", `<D:error` + dav + `><valid-calendar-data/><D:lock-token-submitted><href>/x</href></D:lock-token-submitted></D:error>`, func() interface{} { return &internal.Error{} }},
		{"CurrentUserPrincipal-nons-href", `<D:current-user-principal` + dav + `><href>/p/</href></D:current-user-principal>`, func() interface{} { return &internal.CurrentUserPrincipal{} }},
		{"ResourceType-redeclared", `<D:resourcetype` + dav + ` xmlns="urn:outer"><collection/><x xmlns="DAV:"><collection/></x></D:resourcetype>`, func() interface{} { return &internal.ResourceType{} }},
		// attribute values with TAB, LF and CR given as character references: they are data
		{"Error-attr-charrefs", `<D:error` + dav + `><D:x sep="a&#9;b" eol="&#13;&#10;" text="first&#10;second">t</D:x></D:error>`, func() interface{} { return &internal.Error{} }},
	}
	for _, tc := range cases {
		emitRawTyped(o, tc)
	}
	// the same typed values picked out of a prop element with neighbours
	wantedDN := `<D:displayname xmlns:D="DAV:">Work</D:displayname>`
	foreign := `<x:displayname xmlns:x="urn:example:ext">internal-id-42</x:displayname>`
	nons := `<displayname xmlns="">bare</displayname>`
	mkDN := func() interface{} { return &internal.DisplayName{} }
	for i, sib := range []string{wantedDN, foreign + wantedDN, wantedDN + foreign, nons + foreign + wantedDN, `<D:getetag xmlns:D="DAV:">"e"</D:getetag> text ` + foreign + `<!-- c -->` + wantedDN,
		foreign + `<D:resourcetype xmlns:D="DAV:"><D:displayname>inner</D:displayname></D:resourcetype>` + wantedDN} {
		emitRawPropDecode(o, fmt.Sprintf("DisplayName-among-%d", i), sib, wantedDN, mkDN)
	}
	wantedET := `<getetag xmlns="DAV:">"t"</getetag>`
	for i, sib := range []string{`<getetag xmlns="urn:other">"other"</getetag>` + wantedET, wantedET + `<getetag xmlns="urn:other">"other"</getetag>`} {
		emitRawPropDecode(o, fmt.Sprintf("GetETag-among-%d", i), sib, wantedET, func() interface{} { return &internal.GetETag{} })
	}
}

func init() { families["rawxml"] = famRawXML }
