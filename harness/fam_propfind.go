package main

import (
	"context"
	"encoding/xml"
	"fmt"
	"io"
	"net/http"
	"net/http/httptest"
	"net/url"
	"regexp"
	"sort"
	"strconv"
	"strings"
	"time"

	webdav "github.com/emersion/go-webdav"
	"github.com/emersion/go-webdav/caldav"
	"github.com/emersion/go-webdav/carddav"
	"github.com/emersion/go-webdav/internal"
)

// C11: NewPropFindResponse accounting and PROPFIND scope of the CalDAV / CardDAV / principal handlers

type pfName struct{ space, local string }

type pfAvail struct {
	name  pfName
	value string
	code  int // 0 = value, otherwise the PropFindFunc fails with this HTTP status
}

// parse a marshalled response / multistatus with the independent reader
type parsedResp struct {
	status int // the response's own DAV:status (0 = none)
	hrefs  []string
	stats  map[int][][3]string // code -> (ns, local, text or "~")
	order  []int
	dup    bool // a status appearing in two propstats
}

func (pr parsedResp) has200(ns, local string) bool {
	for _, it := range pr.stats[200] {
		if it[0] == ns && it[1] == local {
			return true
		}
	}
	return false
}

func parseResponseNode(n *xNode) parsedResp {
	pr := parsedResp{stats: map[int][][3]string{}}
	for _, c := range n.children {
		if !c.elem || c.space != "DAV:" {
			continue
		}
		switch c.local {
		case "href":
			pr.hrefs = append(pr.hrefs, textOf(c))
		case "status":
			pr.status = statusLineCode(textOf(c))
		case "propstat":
			code := -1
			var items [][3]string
			for _, d := range c.children {
				if !d.elem {
					continue
				}
				if d.local == "status" {
					code = statusLineCode(textOf(d))
				}
				if d.local == "prop" {
					for _, p := range d.children {
						if !p.elem {
							continue
						}
						v := "~"
						if len(p.children) > 0 {
							v = flatText(p)
						}
						items = append(items, [3]string{p.space, p.local, v})
					}
				}
			}
			if _, ok := pr.stats[code]; ok {
				pr.dup = true
			} else {
				pr.order = append(pr.order, code)
			}
			pr.stats[code] = append(pr.stats[code], items...)
		}
	}
	return pr
}

func textOf(n *xNode) string {
	var b strings.Builder
	for _, c := range n.children {
		if !c.elem && c.kind == 0 {
			b.WriteString(c.data)
		}
	}
	return b.String()
}

// a value's content as one string: text, and nested elements as {ns}local(...)
// RFC 7230 3.1.2: status-line = HTTP-version SP status-code SP reason-phrase (the phrase may be empty, the second SP
// may not be missing); anything else is not a status line (-7)
var statusLineRe = regexp.MustCompile(`^HTTP/[0-9]\.[0-9] ([0-9]{3}) [^\r\n]*$`)

func statusLineCode(s string) int {
	m := statusLineRe.FindStringSubmatch(s)
	if m == nil {
		return -7
	}
	code, _ := strconv.Atoi(m[1])
	return code
}

func flatText(n *xNode) string {
	var b strings.Builder
	for _, c := range n.children {
		if c.elem {
			b.WriteString("{" + c.space + "}" + c.local + "(" + flatText(c) + ")")
		} else if c.kind == 0 {
			b.WriteString(c.data)
		}
	}
	return b.String()
}

func (pr parsedResp) canon() string {
	codes := append([]int(nil), pr.order...)
	sort.Ints(codes)
	var ps []string
	for _, c := range codes {
		var items []string
		for _, it := range pr.stats[c] {
			v := "~"
			if it[2] != "~" {
				v = hx(it[2])
				if it[2] == "" {
					v = "-"
				}
			}
			items = append(items, sx(hx(it[0]), hx(it[1]), v))
		}
		sort.Strings(items)
		ps = append(ps, sx(fmt.Sprint(c), sxl(items)))
	}
	return sxl(ps)
}

var pfRespCount int

func emitPfResp(o *Out, form string, names []pfName, avail []pfAvail) {
	var availSx, namesSx []string
	for _, a := range avail {
		v := sx("v", hx(a.value))
		if a.code != 0 {
			v = sx("e", fmt.Sprint(a.code))
		}
		availSx = append(availSx, sx(hx(a.name.space), hx(a.name.local), v))
	}
	for _, n := range names {
		namesSx = append(namesSx, sx(hx(n.space), hx(n.local)))
	}
	res := guard(func() string {
		props := make(map[xml.Name]internal.PropFindFunc)
		for _, a := range avail {
			a := a
			name := xml.Name{Space: a.name.space, Local: a.name.local}
			props[name] = func(*internal.RawXMLValue) (interface{}, error) {
				if a.code != 0 {
					return nil, internal.HTTPErrorf(a.code, "prop error")
				}
				var ch []internal.RawXMLValue
				if a.value != "" {
					var holder struct {
						Raw []internal.RawXMLValue `xml:",any"`
					}
					// a text child
					xml.Unmarshal([]byte("<x><t>"+xmlEscape(a.value)+"</t></x>"), &holder)
					type textOnly struct {
						XMLName xml.Name
						Text    string `xml:",chardata"`
					}
					return &textOnly{XMLName: name, Text: a.value}, nil
				}
				return internal.NewRawXMLElement(name, nil, ch), nil
			}
		}
		pf := &internal.PropFind{}
		switch form {
		case "propname":
			pf.PropName = &struct{}{}
		case "allprop":
			pf.AllProp = &struct{}{}
			if len(names) > 0 {
				// hidden variation: allprop may come with an <include> naming further properties (RFC 4918 section 9.1);
				// whatever a server does about it, every property is still reported once
				inc := &internal.Include{}
				for _, n := range names {
					inc.Raw = append(inc.Raw, *internal.NewRawXMLElement(xml.Name{Space: n.space, Local: n.local}, nil, nil))
				}
				pf.Include = inc
			}
		case "prop":
			var xn []xml.Name
			for _, n := range names {
				xn = append(xn, xml.Name{Space: n.space, Local: n.local})
			}
			pf = internal.NewPropNamePropFind(xn...)
			pfRespCount++
			if pfRespCount%2 == 0 {
				// the same request as a client may write it: the named elements are not empty (text, an attribute, a child);
				// what is INSIDE a requested element is not part of the request, and a missing property is reported empty
				var b strings.Builder
				b.WriteString(`<propfind xmlns="DAV:"><prop>`)
				for i, n := range names {
					fmt.Fprintf(&b, `<p%d:%s xmlns:p%d="%s" lang="en">draft<p%d:shade level="3"/></p%d:%s>`, i, n.local, i, xmlEscape(n.space), i, i, n.local)
				}
				b.WriteString(`</prop></propfind>`)
				var dec internal.PropFind
				if err := xml.Unmarshal([]byte(b.String()), &dec); err == nil && dec.Prop != nil {
					pf = &dec
				}
			}
		}
		resp, err := internal.NewPropFindResponse("/res", pf, props)
		if err != nil {
			var he *internal.HTTPError
			if asHTTP(err, &he) {
				return fmt.Sprint(he.Code)
			}
			return "error"
		}
		out, err := xml.Marshal(resp)
		if err != nil {
			return "marshal-error"
		}
		t, err := treeOfBytes(out)
		if err != nil {
			return "not-well-formed"
		}
		if t.space != "DAV:" || t.local != "response" {
			return "wrong-root"
		}
		pr := parseResponseNode(t)
		dup := "0"
		if pr.dup {
			dup = "1"
		}
		return fmt.Sprintf("ok %d %s %s", len(pr.hrefs), dup, pr.canon())
	})
	o.Stat("pfresp." + strings.Fields(res)[0])
	o.Emit("pf.resp", form+" "+sxl(namesSx)+" "+sxl(availSx), res)
}

func xmlEscape(s string) string {
	var b strings.Builder
	xml.EscapeText(&b, []byte(s))
	return b.String()
}

func famPfResp(o *Out, r *RNG, thorough bool) {
	dav := func(l string) pfName { return pfName{"DAV:", l} }
	known := []pfAvail{{dav("displayname"), "Name <&>", 0}, {dav("getetag"), "\"e\"", 0}, {pfName{"urn:x", "custom"}, "", 0}, {dav("getcontentlength"), "12", 0}}
	failing := pfAvail{dav("current-user-principal"), "", 403}
	availSets := [][]pfAvail{nil, known[:1], known, append(append([]pfAvail{}, known[:2]...), failing), {{dav("resourcetype"), "x", 0}, known[0]}, {failing, {pfName{"urn:y", "other"}, "", 500}}}
	reqNames := []pfName{dav("displayname"), dav("getetag"), dav("resourcetype"), dav("unknown"), pfName{"urn:x", "custom"}, pfName{"urn:foreign", "displayname"}, dav("current-user-principal"), dav("getcontentlength")}
	for _, av := range availSets {
		emitPfResp(o, "propname", nil, av)
		emitPfResp(o, "allprop", nil, av)
		emitPfResp(o, "none", nil, av)
		emitPfResp(o, "prop", nil, av)
		// every subset of up to 3 names incl. duplicates
		for i := range reqNames {
			emitPfResp(o, "allprop", []pfName{reqNames[i]}, av)
			emitPfResp(o, "allprop", []pfName{reqNames[i], reqNames[(i+3)%len(reqNames)]}, av)
			emitPfResp(o, "prop", []pfName{reqNames[i]}, av)
			for j := range reqNames {
				emitPfResp(o, "prop", []pfName{reqNames[i], reqNames[j]}, av)
				if thorough || (i+j)%3 == 0 {
					for k := range reqNames {
						if thorough || (i+k)%4 == 0 {
							emitPfResp(o, "prop", []pfName{reqNames[i], reqNames[j], reqNames[k]}, av)
						}
					}
				}
			}
		}
	}
	n := 1500
	if thorough {
		n = 30000
	}
	for i := 0; i < n; i++ {
		var av []pfAvail
		seen := map[pfName]bool{}
		for j := r.Range(0, 6); j > 0; j-- {
			nm := reqNames[r.Intn(len(reqNames))]
			if seen[nm] {
				continue
			}
			seen[nm] = true
			a := pfAvail{name: nm, value: r.Pick([]string{"", "v", "a b", "<&>", "é"})}
			if r.Chance(20) {
				a.code = r.Pick2(403, 404, 500, 200)
			}
			av = append(av, a)
		}
		var names []pfName
		for j := r.Range(0, 7); j > 0; j-- {
			names = append(names, reqNames[r.Intn(len(reqNames))])
		}
		emitPfResp(o, r.Pick([]string{"prop", "prop", "prop", "allprop", "propname"}), names, av)
	}
}

// ---- scope ---------------------------------------------------------------------------------------------

type hier struct {
	slash     bool // the handler's Prefix is spelled with a trailing slash
	prefix    string
	principal string
	homeSet   string
	colls     []string
	objs      map[string][]string
}

func (h hier) handlerPrefix() string {
	if h.slash {
		return h.prefix + "/"
	}
	return h.prefix
}

func (h hier) sx() string {
	var cs []string
	for _, c := range h.colls {
		var os []string
		for _, ob := range h.objs[c] {
			os = append(os, hx(ob))
		}
		cs = append(cs, sx(hx(c), sxl(os)))
	}
	return sx(hx(h.principal), hx(h.homeSet), sxl(cs))
}

var propfindBodies = map[string]string{
	"allprop":  `<?xml version="1.0"?><D:propfind xmlns:D="DAV:"><D:allprop/></D:propfind>`,
	"propname": `<?xml version="1.0"?><propfind xmlns="DAV:"><propname/></propfind>`,
	"prop":     `<?xml version="1.0"?><D:propfind xmlns:D="DAV:"><D:prop><D:resourcetype/><D:displayname/><D:getetag/><D:bogus/></D:prop></D:propfind>`,
	"noform":   `<?xml version="1.0"?><D:propfind xmlns:D="DAV:"></D:propfind>`,
	"empty":    ``,
}

func runScope(handler http.Handler, path, depth, form string) string {
	body := propfindBodies[form]
	var rdr io.Reader = strings.NewReader(body)
	req := httptest.NewRequest("PROPFIND", "http://example.com/", rdr)
	req.URL = &url.URL{Path: path}
	if body != "" {
		req.Header.Set("Content-Type", "application/xml")
	}
	if depth != "" {
		req.Header.Set("Depth", depth)
	}
	if form == "emptyx" {
		// an empty body of undeclared length (chunked transfer coding with only the last chunk)
		req.ContentLength = -1
		req.Body = io.NopCloser(onlyReader{strings.NewReader("")})
	}
	rec := httptest.NewRecorder()
	handler.ServeHTTP(rec, req)
	res := rec.Result()
	b, _ := io.ReadAll(res.Body)
	if res.StatusCode != 207 {
		return fmt.Sprint(res.StatusCode)
	}
	t, err := treeOfBytes(b)
	if err != nil {
		return "207 not-well-formed"
	}
	if t.space != "DAV:" || t.local != "multistatus" {
		return "207 wrong-root"
	}
	var hrefs []string
	for _, c := range t.children {
		if !c.elem {
			continue
		}
		if c.space != "DAV:" || c.local != "response" {
			return "207 foreign-child"
		}
		pr := parseResponseNode(c)
		if len(pr.hrefs) != 1 {
			return fmt.Sprintf("207 response-with-%d-hrefs", len(pr.hrefs))
		}
		if pr.dup {
			return "207 duplicate-propstat-status"
		}
		u, err := url.Parse(pr.hrefs[0])
		if err != nil {
			return "207 bad-href"
		}
		hrefs = append(hrefs, hx(u.Path))
	}
	sort.Strings(hrefs)
	return "207 " + sxl(hrefs)
}

func emitScope(o *Out, server string, h hier, level, path, depth, form string) {
	var handler http.Handler
	switch server {
	case "caldav":
		b := &calBackend{principal: h.principal, homeSet: h.homeSet, objects: map[string][]caldav.CalendarObject{}}
		for _, c := range h.colls {
			b.calendars = append(b.calendars, caldav.Calendar{Path: c, Name: "n"})
			for _, ob := range h.objs[c] {
				b.objects[c] = append(b.objects[c], caldav.CalendarObject{Path: ob, ETag: "e", Data: simpleCal("u", "s")})
			}
		}
		handler = &caldav.Handler{Backend: b, Prefix: h.handlerPrefix()}
	case "carddav":
		b := &cardBackend{principal: h.principal, homeSet: h.homeSet, objects: map[string][]carddav.AddressObject{}}
		for _, c := range h.colls {
			b.books = append(b.books, carddav.AddressBook{Path: c, Name: "n"})
			for _, ob := range h.objs[c] {
				b.objects[c] = append(b.objects[c], carddav.AddressObject{Path: ob, ETag: "e", Card: simpleCard("x")})
			}
		}
		handler = &carddav.Handler{Backend: b, Prefix: h.handlerPrefix()}
	case "principal":
		handler = http.HandlerFunc(func(w http.ResponseWriter, r *http.Request) {
			webdav.ServePrincipal(w, r, &webdav.ServePrincipalOptions{CurrentUserPrincipalPath: h.principal,
				HomeSets: []webdav.BackendSuppliedHomeSet{caldav.NewCalendarHomeSet(h.homeSet)}})
		})
	}
	res := guard(func() string { return runScope(handler, path, depth, form) })
	o.Stat("pfscope." + server + "." + strings.Fields(res)[0])
	o.Emit("pf.scope", fmt.Sprintf("%s %s %s %s %s %s", server, level, hx(depth), form, h.sx(), hx(path)), res)
}

// the principal helper with 0..3 home sets: every requested property with its own value
func emitPrincipalProps(o *Out, r *RNG) {
	principal := "/" + r.Pick([]string{"u", "me", "a b"}) + "/"
	type hs struct{ kind, path string }
	var sets []hs
	var opts []webdav.BackendSuppliedHomeSet
	for _, k := range []string{"cal", "card"} {
		if r.Chance(75) {
			p := principal + k + r.Pick([]string{"", "-x", " y"}) + "/"
			sets = append(sets, hs{k, p})
		}
	}
	if r.Bool() && len(sets) == 2 {
		sets[0], sets[1] = sets[1], sets[0]
	}
	var in []string
	for _, h := range sets {
		if h.kind == "cal" {
			opts = append(opts, caldav.NewCalendarHomeSet(h.path))
		} else {
			opts = append(opts, carddav.NewAddressBookHomeSet(h.path))
		}
		in = append(in, sx(h.kind, hx(h.path)))
	}
	body := `<?xml version="1.0"?><D:propfind xmlns:D="DAV:" xmlns:C="urn:ietf:params:xml:ns:caldav" xmlns:A="urn:ietf:params:xml:ns:carddav"><D:prop><C:calendar-home-set/><A:addressbook-home-set/><D:current-user-principal/><D:resourcetype/><D:displayname/></D:prop></D:propfind>`
	if r.Chance(30) {
		body = `<?xml version="1.0"?><D:propfind xmlns:D="DAV:"><D:allprop/></D:propfind>`
	}
	res := guard(func() string {
		req := httptest.NewRequest("PROPFIND", "http://example.com/", strings.NewReader(body))
		req.URL = &url.URL{Path: principal}
		req.Header.Set("Content-Type", "application/xml")
		rec := httptest.NewRecorder()
		webdav.ServePrincipal(rec, req, &webdav.ServePrincipalOptions{CurrentUserPrincipalPath: principal, HomeSets: opts})
		if rec.Code != 207 {
			return itoa(rec.Code)
		}
		t, err := treeOfBytes(rec.Body.Bytes())
		if err != nil || len(t.children) == 0 {
			return "207 not-well-formed"
		}
		var out []string
		for _, c := range t.children {
			if !c.elem {
				continue
			}
			pr := parseResponseNode(c)
			for _, it := range pr.stats[200] {
				// the value is flattened as {DAV:}href(<text>): the href child is DAV:'s, whatever namespace the property
				// itself belongs to (anything else stays as it is and is not the path)
				if v := strings.TrimSpace(it[2]); strings.HasPrefix(v, "{DAV:}href(") && strings.HasSuffix(v, ")") {
					it[2] = v[len("{DAV:}href(") : len(v)-1]
				}
				switch it[1] {
				case "calendar-home-set":
					out = append(out, sx("cal", hx(strings.TrimSpace(it[2]))))
				case "addressbook-home-set":
					out = append(out, sx("card", hx(strings.TrimSpace(it[2]))))
				case "current-user-principal":
					out = append(out, sx("cup", hx(strings.TrimSpace(it[2]))))
				}
			}
		}
		sort.Strings(out)
		return sxl(out)
	})
	o.Emit("pf.prin", hx(principal)+" "+sxl(in), res)
}

// the discovery chain of the real clients against the real handlers, under a mount prefix and with segment names that
// need escaping: current-user-principal -> home set -> collections must be exactly the backend's paths
func emitDiscover(o *Out, r *RNG) {
	mount := r.Pick([]string{"", "/dav", "/s d/v", "/é"})
	principal := mount + "/" + r.Pick(owNames) + "/"
	homeSet := principal + r.Pick(owNames) + "/"
	var colls []string
	for k := r.Range(0, 3); k > 0; k-- {
		colls = append(colls, homeSet+r.Pick(owNames)+fmt.Sprint(k)+"/")
	}
	endpoint := "http://example.com" + (&url.URL{Path: mount + "/"}).EscapedPath()
	for _, srv := range []string{"cal", "card"} {
		res := guard(func() string {
			var p, hs string
			var found []string
			var err error
			ctx := context.Background()
			if srv == "cal" {
				b := &calBackend{principal: principal, homeSet: homeSet}
				for _, c := range colls {
					b.calendars = append(b.calendars, caldav.Calendar{Path: c, Name: "n"})
				}
				hc := &handlerClient{h: &caldav.Handler{Backend: b, Prefix: mount}}
				c, _ := caldav.NewClient(hc, endpoint)
				if p, err = c.FindCurrentUserPrincipal(ctx); err != nil {
					return "principal-" + errStr(err)
				}
				if hs, err = c.FindCalendarHomeSet(ctx, p); err != nil {
					return "homeset-" + errStr(err)
				}
				cals, err := c.FindCalendars(ctx, hs)
				if err != nil {
					return "collections-" + errStr(err)
				}
				for _, x := range cals {
					found = append(found, hx(x.Path))
				}
			} else {
				b := &cardBackend{principal: principal, homeSet: homeSet}
				for _, c := range colls {
					b.books = append(b.books, carddav.AddressBook{Path: c, Name: "n"})
				}
				hc := &handlerClient{h: &carddav.Handler{Backend: b, Prefix: mount}}
				c, _ := carddav.NewClient(hc, endpoint)
				if p, err = c.FindCurrentUserPrincipal(ctx); err != nil {
					return "principal-" + errStr(err)
				}
				if hs, err = c.FindAddressBookHomeSet(ctx, p); err != nil {
					return "homeset-" + errStr(err)
				}
				books, err := c.FindAddressBooks(ctx, hs)
				if err != nil {
					return "collections-" + errStr(err)
				}
				for _, x := range books {
					found = append(found, hx(x.Path))
				}
			}
			return hx(p) + " " + hx(hs) + " " + sxl(found)
		})
		var in []string
		for _, c := range colls {
			in = append(in, hx(c))
		}
		o.Stat("discover." + srv)
		o.Emit("pf.discover", srv+" "+hx(principal)+" "+hx(homeSet)+" "+sxl(in), res)
	}
	emitDiscoverShared(o, r, mount, endpoint)
}

// the same chain for TWO users served by ONE handler (the backend answers for the user in the request context, as a
// multi-user deployment does), each user first asking the well-known URL: nothing a handler learnt while serving the
// first user may show in what the second one is told
func emitDiscoverShared(o *Out, r *RNG, mount, endpoint string) {
	type user struct {
		name, principal, homeSet string
		colls                    []string
	}
	var us []user
	for i, n := range []string{"u1", "u2"} {
		p := mount + "/" + r.Pick(owNames) + fmt.Sprint(i) + "/"
		u := user{name: n, principal: p, homeSet: p + r.Pick(owNames) + "/"}
		for k := r.Range(0, 2); k > 0; k-- {
			u.colls = append(u.colls, u.homeSet+r.Pick(owNames)+fmt.Sprint(k)+"/")
		}
		us = append(us, u)
	}
	for _, srv := range []string{"cal", "card"} {
		var h http.Handler
		if srv == "cal" {
			m := &multiCal{users: map[string]*calBackend{}}
			for _, u := range us {
				b := &calBackend{principal: u.principal, homeSet: u.homeSet}
				for _, c := range u.colls {
					b.calendars = append(b.calendars, caldav.Calendar{Path: c, Name: "n"})
				}
				m.users[u.name] = b
			}
			h = &caldav.Handler{Backend: m, Prefix: mount}
		} else {
			m := &multiCard{users: map[string]*cardBackend{}}
			for _, u := range us {
				b := &cardBackend{principal: u.principal, homeSet: u.homeSet}
				for _, c := range u.colls {
					b.books = append(b.books, carddav.AddressBook{Path: c, Name: "n"})
				}
				m.users[u.name] = b
			}
			h = &carddav.Handler{Backend: m, Prefix: mount}
		}
		// u1, u2, then u1 again: the third round sees whatever the second left behind
		for _, u := range []user{us[0], us[1], us[0]} {
			u := u
			res := guard(func() string {
				ctx := withUser(context.Background(), u.name)
				// the well-known URL of this service redirects to THIS user's principal
				wk := "/.well-known/" + map[string]string{"cal": "caldav", "card": "carddav"}[srv]
				req := httptest.NewRequest("PROPFIND", "http://example.com"+(&url.URL{Path: wk}).EscapedPath(), nil).WithContext(ctx)
				rec := httptest.NewRecorder()
				h.ServeHTTP(rec, req)
				if loc := rec.Header().Get("Location"); rec.Code/100 == 3 {
					if lu, err := url.Parse(loc); err != nil || lu.Path != u.principal {
						return "wellknown-redirects-to-" + hx(loc)
					}
				}
				hc := &handlerClient{h: h}
				var p, hs string
				var found []string
				var err error
				if srv == "cal" {
					c, _ := caldav.NewClient(hc, endpoint)
					if p, err = c.FindCurrentUserPrincipal(ctx); err != nil {
						return "principal-" + errStr(err)
					}
					if hs, err = c.FindCalendarHomeSet(ctx, p); err != nil {
						return "homeset-" + errStr(err)
					}
					cals, err := c.FindCalendars(ctx, hs)
					if err != nil {
						return "collections-" + errStr(err)
					}
					for _, x := range cals {
						found = append(found, hx(x.Path))
					}
				} else {
					c, _ := carddav.NewClient(hc, endpoint)
					if p, err = c.FindCurrentUserPrincipal(ctx); err != nil {
						return "principal-" + errStr(err)
					}
					if hs, err = c.FindAddressBookHomeSet(ctx, p); err != nil {
						return "homeset-" + errStr(err)
					}
					books, err := c.FindAddressBooks(ctx, hs)
					if err != nil {
						return "collections-" + errStr(err)
					}
					for _, x := range books {
						found = append(found, hx(x.Path))
					}
				}
				return hx(p) + " " + hx(hs) + " " + sxl(found)
			})
			var in []string
			for _, c := range u.colls {
				in = append(in, hx(c))
			}
			o.Stat("discover.shared." + srv)
			o.Emit("pf.discover", srv+" "+hx(u.principal)+" "+hx(u.homeSet)+" "+sxl(in), res)
		}
	}
}

// The three request forms must tell one story about which properties a resource has: what propname lists (under 200,
// nothing under another status) is what allprop returns with values (under 200, nothing under another status), is what
// a request naming all those names and one unknown name gets under 200 (and the unknown one under 404) -- for every
// resource of every server, whatever optional values (display name, description, size limit, entity tag, modification
// time, content type) the backend leaves empty.
func pfFormAnswer(handler http.Handler, path, body string) (map[string]parsedResp, string) {
	req := httptest.NewRequest("PROPFIND", "http://example.com/", strings.NewReader(body))
	req.URL = &url.URL{Path: path}
	req.Header.Set("Content-Type", "application/xml")
	req.Header.Set("Depth", "infinity")
	rec := httptest.NewRecorder()
	handler.ServeHTTP(rec, req)
	if rec.Code != 207 {
		return nil, fmt.Sprintf("status-%d", rec.Code)
	}
	t, err := treeOfBytes(rec.Body.Bytes())
	if err != nil {
		return nil, "not-well-formed"
	}
	out := map[string]parsedResp{}
	for _, c := range t.children {
		if !c.elem {
			continue
		}
		pr := parseResponseNode(c)
		if len(pr.hrefs) != 1 {
			return nil, "response-without-single-href"
		}
		if _, dup := out[pr.hrefs[0]]; dup {
			return nil, "resource-answered-twice"
		}
		out[pr.hrefs[0]] = pr
	}
	return out, ""
}

func names200(pr parsedResp) []string {
	var ns []string
	for _, it := range pr.stats[200] {
		ns = append(ns, it[0]+" "+it[1])
	}
	sort.Strings(ns)
	return ns
}

func consistency(handler http.Handler, path string) string {
	pn, e := pfFormAnswer(handler, path, propfindBodies["propname"])
	if e != "" {
		return "propname-" + e
	}
	ap, e := pfFormAnswer(handler, path, propfindBodies["allprop"])
	if e != "" {
		return "allprop-" + e
	}
	if len(pn) != len(ap) || len(pn) == 0 {
		return "forms-answer-for-different-resources"
	}
	union := map[string]bool{}
	for href, a := range pn {
		b, ok := ap[href]
		if !ok {
			return "forms-answer-for-different-resources"
		}
		for code := range a.stats {
			if code != 200 {
				return fmt.Sprintf("propname-reports-names-under-%d %s", code, hx(href))
			}
		}
		for code, items := range b.stats {
			if code != 200 {
				return fmt.Sprintf("allprop-reports-%s-under-%d-which-propname-%s %s", items[0][1], code, map[bool]string{true: "lists", false: "omits"}[a.has200(items[0][0], items[0][1])], hx(href))
			}
		}
		if strings.Join(names200(a), "|") != strings.Join(names200(b), "|") {
			return "propname-and-allprop-list-different-properties " + hx(href)
		}
		for _, n := range names200(a) {
			union[n] = true
		}
	}
	var b strings.Builder
	b.WriteString(`<?xml version="1.0"?><D:propfind xmlns:D="DAV:"><D:prop>`)
	var all []string
	for n := range union {
		all = append(all, n)
	}
	sort.Strings(all)
	for _, n := range all {
		f := strings.SplitN(n, " ", 2)
		b.WriteString(`<x:` + f[1] + ` xmlns:x="` + f[0] + `"/>`)
	}
	b.WriteString(`<x:no-such-property xmlns:x="urn:verif"/></D:prop></D:propfind>`)
	nm, e := pfFormAnswer(handler, path, b.String())
	if e != "" {
		return "prop-" + e
	}
	if len(nm) != len(pn) {
		return "forms-answer-for-different-resources"
	}
	for href, a := range pn {
		c, ok := nm[href]
		if !ok {
			return "forms-answer-for-different-resources"
		}
		if strings.Join(names200(a), "|") != strings.Join(names200(c), "|") {
			return "named-request-and-propname-disagree " + hx(href)
		}
		n404 := 0
		for code, items := range c.stats {
			if code != 200 && code != 404 {
				return fmt.Sprintf("named-request-answers-%d %s", code, hx(href))
			}
			if code == 404 {
				n404 = len(items)
			}
		}
		if n404 != len(all)+1-len(names200(a)) {
			return "named-request-does-not-account-for-every-name " + hx(href)
		}
	}
	return "ok"
}

func emitConsist(o *Out, r *RNG) {
	opt := func(v string) string {
		if r.Chance(45) {
			return ""
		}
		return v
	}
	optTime := func() time.Time {
		if r.Chance(45) {
			return time.Time{}
		}
		return time.Unix(int64(r.Range(1000000, 2000000000)), 0)
	}
	optSize := func() int64 {
		if r.Chance(45) {
			return 0
		}
		return int64(r.Range(1, 100000))
	}
	principal, homeSet := "/u/", "/u/c/"
	server := r.Pick([]string{"caldav", "carddav", "webdav", "principal"})
	var handler http.Handler
	switch server {
	case "caldav":
		b := &calBackend{principal: principal, homeSet: homeSet, objects: map[string][]caldav.CalendarObject{}}
		for k := r.Range(1, 3); k > 0; k-- {
			c := caldav.Calendar{Path: fmt.Sprintf("%sc%d/", homeSet, k), Name: opt("n"), Description: opt("d"), MaxResourceSize: optSize()}
			if r.Bool() {
				c.SupportedComponentSet = []string{"VEVENT", "VTODO"}[:r.Range(1, 2)]
			}
			b.calendars = append(b.calendars, c)
			for j := r.Range(0, 2); j > 0; j-- {
				b.objects[c.Path] = append(b.objects[c.Path], caldav.CalendarObject{Path: fmt.Sprintf("%so%d.ics", c.Path, j), ETag: opt("e"), ModTime: optTime(), ContentLength: optSize(), Data: simpleCal("u", "s")})
			}
		}
		handler = &caldav.Handler{Backend: b}
	case "carddav":
		b := &cardBackend{principal: principal, homeSet: homeSet, objects: map[string][]carddav.AddressObject{}}
		for k := r.Range(1, 3); k > 0; k-- {
			c := carddav.AddressBook{Path: fmt.Sprintf("%sb%d/", homeSet, k), Name: opt("n"), Description: opt("d"), MaxResourceSize: optSize()}
			if r.Bool() {
				c.SupportedAddressData = []carddav.AddressDataType{{ContentType: "text/vcard", Version: "4.0"}}
			}
			b.books = append(b.books, c)
			for j := r.Range(0, 2); j > 0; j-- {
				b.objects[c.Path] = append(b.objects[c.Path], carddav.AddressObject{Path: fmt.Sprintf("%so%d.vcf", c.Path, j), ETag: opt("e"), ModTime: optTime(), ContentLength: optSize(), Card: simpleCard("x")})
			}
		}
		handler = &carddav.Handler{Backend: b}
	case "webdav":
		m := newMemFS()
		m.files["/"] = &webdav.FileInfo{Path: "/", IsDir: true, ModTime: optTime()}
		for k := r.Range(1, 4); k > 0; k-- {
			p := fmt.Sprintf("/f%d", k)
			if r.Chance(30) {
				m.files[p] = &webdav.FileInfo{Path: p, IsDir: true, ModTime: optTime()}
				p += "/inner"
			}
			m.files[p] = &webdav.FileInfo{Path: p, Size: optSize(), ModTime: optTime(), MIMEType: opt("text/plain"), ETag: opt("e")}
			m.content[p] = nil
		}
		handler = &webdav.Handler{FileSystem: m}
	case "principal":
		var opts []webdav.BackendSuppliedHomeSet
		if r.Bool() {
			opts = append(opts, caldav.NewCalendarHomeSet(homeSet))
		}
		if r.Bool() {
			opts = append(opts, carddav.NewAddressBookHomeSet("/u/b/"))
		}
		handler = http.HandlerFunc(func(w http.ResponseWriter, req *http.Request) {
			webdav.ServePrincipal(w, req, &webdav.ServePrincipalOptions{CurrentUserPrincipalPath: principal, HomeSets: opts})
		})
	}
	path := "/"
	if server == "principal" {
		path = principal
	}
	o.Stat("consist." + server)
	o.Emit("pf.consist", server, guard(func() string { return consistency(handler, path) }))
}

func famPfScope(o *Out, r *RNG, thorough bool) {
	for i := 0; i < 150; i++ {
		emitDiscover(o, r)
	}
	for i := 0; i < 400; i++ {
		emitConsist(o, r)
	}
	for i := 0; i < 200; i++ {
		emitPrincipalProps(o, r)
	}
	for _, spelled := range []string{"", "/dav", "/a/b", "/", "/dav/", "/a/b/", "/s/d/v/"} {
		prefix := strings.TrimSuffix(spelled, "/")
		h := hier{slash: strings.HasSuffix(spelled, "/"), prefix: prefix, principal: prefix + "/u/", homeSet: prefix + "/u/cal/",
			colls: []string{prefix + "/u/cal/one/", prefix + "/u/cal/two/", prefix + "/u/cal/empty/"},
			objs:  map[string][]string{prefix + "/u/cal/one/": {prefix + "/u/cal/one/a.ics", prefix + "/u/cal/one/b c.ics"}, prefix + "/u/cal/two/": {prefix + "/u/cal/two/z.ics"}}}
		targets := []struct{ level, path string }{
			{"root", prefix + "/"}, {"root", prefix},
			{"principal", h.principal}, {"principal", prefix + "/other/"}, {"principal", prefix + "/u"},
			{"homeSet", h.homeSet}, {"homeSet", prefix + "/u/other/"}, {"homeSet", prefix + "/other/cal/"},
			// string prefixes and extensions of the user's own paths that name other resources at the same depth
			{"homeSet", prefix + "/u/c"}, {"homeSet", prefix + "/u/ca"}, {"homeSet", prefix + "/u/cal"}, {"homeSet", prefix + "/u/cal2/"}, {"homeSet", prefix + "/u/cal2"},
			{"principal", prefix + "/u2/"}, {"principal", prefix + "/U/"},
			{"collection", h.colls[0]}, {"collection", h.colls[2]}, {"collection", prefix + "/u/cal/missing/"},
			{"object", h.objs[h.colls[0]][1]}, {"object", prefix + "/u/cal/one/missing.ics"},
			{"deeper", prefix + "/u/cal/one/a.ics/x"},
		}
		for _, server := range []string{"caldav", "carddav"} {
			for _, tg := range targets {
				if tg.path == "" {
					continue
				}
				for _, depth := range []string{"", "0", "1", "infinity", "2"} {
					for _, form := range []string{"allprop", "propname", "prop", "noform", "empty", "emptyx"} {
						if !thorough && form != "allprop" && depth != "1" && depth != "" {
							continue
						}
						emitScope(o, server, h, tg.level, tg.path, depth, form)
					}
				}
			}
		}
		for _, depth := range []string{"", "0", "1"} {
			for _, form := range []string{"allprop", "prop", "noform", "propname", "empty", "emptyx"} {
				emitScope(o, "principal", h, "principal", h.principal, depth, form)
				// the helper answers for the URL it is called for, whichever that is
				emitScope(o, "principal", h, "principal", strings.TrimSuffix(h.principal, "/"), depth, form)
				emitScope(o, "principal", h, "principal", prefix+"/someone else/", depth, form)
			}
		}
	}
	// segment names that mean something elsewhere (the well-known URIs, the servers' own names): below a mount prefix a
	// path is classified by its depth alone
	for _, spelled := range []string{"/dav", "/dav/", "/s/d/v", "/s/d/v/"} {
		prefix := strings.TrimSuffix(spelled, "/")
		for _, server := range []string{"caldav", "carddav"} {
			for _, hs := range []string{"caldav", "carddav", ".well-known"} {
				pr := prefix + "/.well-known/"
				h := hier{slash: strings.HasSuffix(spelled, "/"), prefix: prefix, principal: pr, homeSet: pr + hs + "/",
					colls: []string{pr + hs + "/work/"}, objs: map[string][]string{pr + hs + "/work/": {pr + hs + "/work/a.ics"}}}
				for _, depth := range []string{"", "0", "1"} {
					emitScope(o, server, h, "principal", pr, depth, "allprop")
					emitScope(o, server, h, "principal", strings.TrimSuffix(pr, "/"), depth, "allprop")
					emitScope(o, server, h, "homeSet", h.homeSet, depth, "allprop")
					emitScope(o, server, h, "homeSet", strings.TrimSuffix(h.homeSet, "/"), depth, "allprop")
					emitScope(o, server, h, "collection", h.colls[0], depth, "prop")
				}
			}
		}
	}
	// random layouts
	n := 200
	if thorough {
		n = 5000
	}
	for i := 0; i < n; i++ {
		prefix := r.Pick([]string{"", "/p", "/p/q"})
		h := hier{prefix: prefix, principal: prefix + "/" + r.Pick([]string{"u", "me", "a b"}) + "/", objs: map[string][]string{}}
		h.homeSet = h.principal + r.Pick([]string{"cal", "x"}) + "/"
		for j := r.Range(0, 3); j > 0; j-- {
			c := fmt.Sprintf("%sc%d/", h.homeSet, j)
			h.colls = append(h.colls, c)
			for k := r.Range(0, 3); k > 0; k-- {
				h.objs[c] = append(h.objs[c], fmt.Sprintf("%so%d", c, k))
			}
		}
		lv := r.Intn(5)
		level := []string{"root", "principal", "homeSet", "collection", "object"}[lv]
		path := prefix + "/"
		switch lv {
		case 1:
			path = h.principal
		case 2:
			path = h.homeSet
		case 3:
			path = h.homeSet + "c1/"
		case 4:
			path = h.homeSet + "c1/o1"
		}
		emitScope(o, r.Pick([]string{"caldav", "carddav"}), h, level, path, r.Pick([]string{"", "0", "1", "infinity"}), r.Pick([]string{"allprop", "prop", "propname"}))
	}
}

func init() {
	families["pfresp"] = famPfResp
	families["pfscope"] = famPfScope
}
