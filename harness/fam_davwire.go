package main

import (
	"bytes"
	"context"
	"errors"
	"fmt"
	"io"
	"net/url"
	"os"
	"path"
	"sort"
	"strings"
	"time"

	webdav "github.com/emersion/go-webdav"
	"github.com/emersion/go-webdav/internal"
)

// C05: WebDAV client and server agree on names, metadata and content

// a synthetic in-memory FileSystem that holds arbitrary metadata and records every call
type memFS struct {
	putTag  string // the entity tag Create hands out ("stored" when empty)
	fail    error  // every call fails with it
	files   map[string]*webdav.FileInfo
	content map[string][]byte
	log     []string
}

func newMemFS() *memFS {
	return &memFS{files: map[string]*webdav.FileInfo{"/": {Path: "/", IsDir: true}}, content: map[string][]byte{}}
}

func (m *memFS) rec(format string, a ...interface{}) {
	m.log = append(m.log, fmt.Sprintf(format, a...))
}

func (m *memFS) Open(ctx context.Context, name string) (io.ReadCloser, error) {
	m.rec("Open %s", hx(name))
	if m.fail != nil {
		return nil, m.fail
	}
	c, ok := m.content[name]
	if !ok {
		return nil, webdav.NewHTTPError(404, fmt.Errorf("not found"))
	}
	// not a ReadSeeker: the handler streams it as it is
	return io.NopCloser(bytes.NewBuffer(append([]byte(nil), c...))), nil
}
func (m *memFS) Stat(ctx context.Context, name string) (*webdav.FileInfo, error) {
	m.rec("Stat %s", hx(name))
	if m.fail != nil {
		return nil, m.fail
	}
	fi, ok := m.files[name]
	if !ok {
		return nil, webdav.NewHTTPError(404, fmt.Errorf("not found"))
	}
	return fi, nil
}
func (m *memFS) ReadDir(ctx context.Context, name string, recursive bool) ([]webdav.FileInfo, error) {
	m.rec("ReadDir %s %s", hx(name), b01(recursive))
	if m.fail != nil {
		return nil, m.fail
	}
	dir := strings.TrimSuffix(name, "/")
	var keys []string
	for k := range m.files {
		keys = append(keys, k)
	}
	sort.Strings(keys)
	var out []webdav.FileInfo
	for _, k := range keys {
		kk := strings.TrimSuffix(k, "/")
		if kk == dir {
			out = append(out, *m.files[k])
			continue
		}
		if !strings.HasPrefix(kk, dir+"/") {
			continue
		}
		rest := strings.TrimPrefix(kk, dir+"/")
		if recursive || !strings.Contains(rest, "/") {
			out = append(out, *m.files[k])
		}
	}
	return out, nil
}
func (m *memFS) Create(ctx context.Context, name string, body io.ReadCloser, opts *webdav.CreateOptions) (*webdav.FileInfo, bool, error) {
	b, err := io.ReadAll(body)
	m.rec("Create %s %s %s %s", hx(name), hx(string(b)), hx(string(opts.IfMatch)), hx(string(opts.IfNoneMatch)))
	if m.fail != nil {
		return nil, false, m.fail
	}
	if err != nil {
		return nil, false, err
	}
	_, existed := m.files[name]
	m.content[name] = b
	tag := m.putTag
	if tag == "" {
		tag = "stored"
	}
	m.files[name] = &webdav.FileInfo{Path: name, Size: int64(len(b)), ETag: tag}
	return m.files[name], !existed, nil
}
func (m *memFS) RemoveAll(ctx context.Context, name string, opts *webdav.RemoveAllOptions) error {
	m.rec("RemoveAll %s", hx(name))
	if m.fail != nil {
		return m.fail
	}
	return nil
}
func (m *memFS) Mkdir(ctx context.Context, name string) error {
	m.rec("Mkdir %s", hx(name))
	if m.fail != nil {
		return m.fail
	}
	return nil
}
func (m *memFS) Copy(ctx context.Context, name, dest string, options *webdav.CopyOptions) (bool, error) {
	m.rec("Copy %s %s %s %s", hx(name), hx(dest), b01(options.NoRecursive), b01(options.NoOverwrite))
	if m.fail != nil {
		return false, m.fail
	}
	return true, nil
}
func (m *memFS) Move(ctx context.Context, name, dest string, options *webdav.MoveOptions) (bool, error) {
	m.rec("Move %s %s %s", hx(name), hx(dest), b01(options.NoOverwrite))
	if m.fail != nil {
		return false, m.fail
	}
	return true, nil
}

func sxFileInfo(fi *webdav.FileInfo) string {
	return sx("fi", hx(fi.Path), b01(fi.IsDir), fmt.Sprint(fi.Size), sxTimeZ(fi.ModTime), hx(fi.MIMEType), hx(fi.ETag))
}

var dwNames = []string{"x", "a b", "é", "q#1", "w?x", "p%41", "s;t", "plus+", "a&b", "quote'\"", "x<y>", "dot.", "~t", "日本", "%", "a%2Fb", "CON", ".hidden", "trail."}
var dwMimes = []string{"", "text/plain", "text/plain; charset=utf-8", "application/octet-stream", "x-weird/é", "image/svg+xml",
	// values that are not in mime.FormatMediaType's canonical form (the client reports what the backend holds)
	"text/html;charset=UTF-8", "image/JPEG", "text/calendar; method=REQUEST; charset=utf-8", "text/plain; charset=\"utf-8\"", "Text/Plain", "a/b;x=1;y=2", "not a media type", "text/plain;"}
var dwEndpoints = []string{"http://example.com", "http://example.com/", "http://example.com/dav", "http://example.com/dav/", "http://example.com/a%20b/c/", "http://user@example.com:8080/pre/fix"}

func randMemFS(r *RNG) (*memFS, []string) {
	m := newMemFS()
	m.files["/"].ModTime = owTime(r)
	paths := []string{"/"}
	var dirs = []string{"/"}
	for k := r.Range(1, 7); k > 0; k-- {
		parent := dirs[r.Intn(len(dirs))]
		name := r.Pick(dwNames) + fmt.Sprint(k)
		if r.Chance(35) {
			p := parent + name + "/"
			m.files[p] = &webdav.FileInfo{Path: p, IsDir: true, ModTime: owTime(r)}
			dirs = append(dirs, p)
			paths = append(paths, p)
		} else {
			p := parent + name
			content := []byte(r.Pick([]string{"", "hello", "\x00\x01\xff binary", strings.Repeat("0123456789", 50)}))
			m.files[p] = &webdav.FileInfo{Path: p, Size: int64(len(content)), ModTime: owTime(r), MIMEType: r.Pick(dwMimes), ETag: owETag(r)}
			if r.Chance(15) {
				m.files[p].Size = int64(r.Pick2(0, 1, 9007199254740993))
			}
			m.content[p] = content
			paths = append(paths, p)
		}
	}
	return m, paths
}

func emitDavRead(o *Out, r *RNG) {
	m, paths := randMemFS(r)
	hc := &handlerClient{h: &webdav.Handler{FileSystem: m}}
	c, _ := webdav.NewClient(hc, "http://example.com/")
	// the same resources addressed by names relative to an endpoint with a path
	rel := func(p string) (*webdav.Client, string) {
		for _, q := range paths {
			if strings.HasSuffix(q, "/") && q != "/" && strings.HasPrefix(p, q) && p != q {
				cl, _ := webdav.NewClient(hc, "http://example.com"+(&url.URL{Path: q}).String())
				return cl, strings.TrimPrefix(p, q)
			}
		}
		return c, p
	}
	ctx := context.Background()
	var tree []string
	keys := append([]string(nil), paths...)
	sort.Strings(keys)
	for _, k := range keys {
		tree = append(tree, sxFileInfo(m.files[k]))
	}
	for _, p := range paths {
		fi := m.files[p]
		o.Emit("dav.stat", sxFileInfo(fi), guard(func() string {
			got, err := c.Stat(ctx, p)
			if err != nil {
				return errStr(err)
			}
			return sxFileInfo(got)
		}))
		if cl, name := rel(p); cl != c && !strings.HasSuffix(name, "/") {
			o.Emit("dav.stat", sxFileInfo(fi), guard(func() string {
				got, err := cl.Stat(ctx, name)
				if err != nil {
					return errStr(err)
				}
				return sxFileInfo(got)
			}))
		}
		if !fi.IsDir {
			want := m.content[p]
			o.Emit("dav.open", hx(string(want)), guard(func() string {
				rc, err := c.Open(ctx, p)
				if err != nil {
					return errStr(err)
				}
				defer rc.Close()
				b, err := io.ReadAll(rc)
				if err != nil {
					return errStr(err)
				}
				return hx(string(b))
			}))
			continue
		}
		for _, rec := range []bool{false, true} {
			o.Emit("dav.readdir", hx(p)+" "+b01(rec)+" "+sxl(tree), guard(func() string {
				got, err := c.ReadDir(ctx, p, rec)
				if err != nil {
					return errStr(err)
				}
				var out []string
				for i := range got {
					out = append(out, sxFileInfo(&got[i]))
				}
				return sxl(out)
			}))
		}
	}
}

// requests: which backend call, with which names and options
func emitDavOps(o *Out, r *RNG) {
	ctx := context.Background()
	endpoint := r.Pick(dwEndpoints)
	relOrAbs := func() string {
		n := r.Pick(dwNames)
		switch r.Intn(6) {
		case 0:
			return "/" + n
		case 1:
			return "/deep/" + n + "/" + r.Pick(dwNames)
		case 2:
			return n + "/" + r.Pick(dwNames)
		case 3:
			return n + "/"
		case 4:
			return r.Pick([]string{"", ".", "./" + n, "a/../" + n, "a//" + n})
		}
		return n
	}
	name, dest := relOrAbs(), relOrAbs()
	run := func(op string, args string, f func(c *webdav.Client) error) {
		m := newMemFS()
		hc := &handlerClient{h: &webdav.Handler{FileSystem: m}}
		res := guard(func() string {
			c, err := webdav.NewClient(hc, endpoint)
			if err != nil {
				return "setup-error"
			}
			if err := f(c); err != nil {
				return errStr(err)
			}
			var calls []string
			for _, l := range m.log {
				if !strings.HasPrefix(l, "Stat ") {
					calls = append(calls, strings.Replace(l, " ", ":", -1))
				}
			}
			return sxl(calls)
		})
		// the endpoint's path as internal.NewClient keeps it ("" becomes "/")
		ep := "/"
		if u, err := url.Parse(endpoint); err == nil && u.Path != "" {
			ep = u.Path
		}
		o.Emit("dav.op", op+" "+hx(ep)+" "+args, res)
	}
	run("mkdir", hx(name), func(c *webdav.Client) error { return c.Mkdir(ctx, name) })
	run("removeall", hx(name), func(c *webdav.Client) error { return c.RemoveAll(ctx, name) })
	for _, nr := range []bool{false, true} {
		for _, no := range []bool{false, true} {
			run("copy", hx(name)+" "+hx(dest)+" "+b01(nr)+" "+b01(no), func(c *webdav.Client) error {
				return c.Copy(ctx, name, dest, &webdav.CopyOptions{NoRecursive: nr, NoOverwrite: no})
			})
		}
	}
	for _, no := range []bool{false, true} {
		run("move", hx(name)+" "+hx(dest)+" "+b01(no), func(c *webdav.Client) error {
			return c.Move(ctx, name, dest, &webdav.MoveOptions{NoOverwrite: no})
		})
	}
	run("copy-nil", hx(name)+" "+hx(dest), func(c *webdav.Client) error { return c.Copy(ctx, name, dest, nil) })
	content := r.Pick([]string{"", "hello", "\x00\x01\xff binary \r\n", strings.Repeat("0123456789abcdef", 5000)})
	run("create", hx(name)+" "+hx(content), func(c *webdav.Client) error {
		w, err := c.Create(ctx, name)
		if err != nil {
			return err
		}
		for i := 0; i < len(content); i += 7000 {
			j := i + 7000
			if j > len(content) {
				j = len(content)
			}
			if _, err := w.Write([]byte(content[i:j])); err != nil {
				return err
			}
		}
		return w.Close()
	})
}

// the same reads against LocalFileSystem on disk
func emitDavLocal(o *Out, r *RNG) {
	root, err := os.MkdirTemp("", "verif-dav-*")
	if err != nil {
		return
	}
	defer os.RemoveAll(root)
	hc := &handlerClient{h: &webdav.Handler{FileSystem: webdav.LocalFileSystem(root)}}
	c, _ := webdav.NewClient(hc, "http://example.com/")
	ctx := context.Background()
	type ent struct {
		p     string
		dir   bool
		data  string
		mtime time.Time
	}
	ents := []ent{{p: "/", dir: true}}
	dirs := []string{"/"}
	for k := r.Range(1, 6); k > 0; k-- {
		parent := dirs[r.Intn(len(dirs))]
		name := r.Pick([]string{"x", "a b", "é", "q#1", "w?x", "p%41", "s;t", "plus+", "a&b", "quote'", "x<y>", "~t", "日本", ".hidden", "..notes", "...", "..", "a..b", "-", "&amp;"}) + fmt.Sprint(k)
		if r.Chance(35) {
			p := parent + name + "/"
			if os.Mkdir(path.Join(root, p), 0755) != nil {
				continue
			}
			dirs = append(dirs, p)
			ents = append(ents, ent{p: p, dir: true})
		} else {
			p := parent + name
			data := r.Pick([]string{"", "hello", "\x00\x01\xff binary", strings.Repeat("0123456789", 50)})
			if os.WriteFile(path.Join(root, p), []byte(data), 0644) != nil {
				continue
			}
			mt := time.Unix(int64(r.Range(1000000, 2000000000)), 0)
			os.Chtimes(path.Join(root, p), mt, mt)
			ents = append(ents, ent{p: p, data: data, mtime: mt})
		}
	}
	sort.Slice(ents, func(i, j int) bool { return ents[i].p < ents[j].p })
	var tree []string
	for _, e := range ents {
		if e.dir {
			tree = append(tree, sx("fi", hx(e.p), "1", "0", "z", "-", "-"))
		} else {
			tree = append(tree, sx("fi", hx(e.p), "0", fmt.Sprint(len(e.data)), fmt.Sprint(e.mtime.Unix()), "-", "-"))
		}
	}
	// LocalFileSystem derives MIME type and ETag itself: they are reported as "-" and compared for presence only
	norm := func(fi *webdav.FileInfo) string {
		if fi.IsDir {
			return sx("fi", hx(fi.Path), "1", "0", "z", "-", "-")
		}
		return sx("fi", hx(fi.Path), "0", fmt.Sprint(fi.Size), sxTimeZ(fi.ModTime), "-", "-")
	}
	// Create through the client, over new and over existing (longer and shorter) files: stored byte for byte
	for _, e := range ents {
		if e.dir {
			continue
		}
		for _, content := range []string{"", "v2", e.data + " and more", strings.Repeat("z", 70000)} {
			target := e.p
			if content == "v2" && r.Bool() {
				target = e.p + ".new"
			}
			o.Emit("dav.open", hx(content), guard(func() string {
				w, err := c.Create(ctx, target)
				if err != nil {
					return errStr(err)
				}
				if _, err := w.Write([]byte(content)); err != nil {
					return errStr(err)
				}
				if err := w.Close(); err != nil {
					return errStr(err)
				}
				b, err := os.ReadFile(path.Join(root, target))
				if err != nil {
					return errStr(err)
				}
				return hx(string(b))
			}))
		}
		// restore the content the listing below expects
		os.WriteFile(path.Join(root, e.p), []byte(e.data), 0644)
		os.Remove(path.Join(root, e.p+".new"))
		os.Chtimes(path.Join(root, e.p), e.mtime, e.mtime)
	}
	for _, e := range ents {
		if !e.dir {
			o.Emit("dav.open", hx(e.data), guard(func() string {
				rc, err := c.Open(ctx, e.p)
				if err != nil {
					return errStr(err)
				}
				defer rc.Close()
				b, _ := io.ReadAll(rc)
				return hx(string(b))
			}))
			continue
		}
		for _, rec := range []bool{false, true} {
			o.Emit("dav.readdir-local", hx(e.p)+" "+b01(rec)+" "+sxl(tree), guard(func() string {
				got, err := c.ReadDir(ctx, e.p, rec)
				if err != nil {
					return errStr(err)
				}
				var out []string
				for i := range got {
					out = append(out, norm(&got[i]))
				}
				sort.Strings(out)
				// every reported path must be addressable again
				for i := range got {
					if _, err := c.Stat(ctx, got[i].Path); err != nil {
						return "reported-path-not-addressable " + hx(got[i].Path)
					}
				}
				return sxl(out)
			}))
		}
	}
}

// a failing FileSystem: the client's error carries the status the backend chose
func emitDavFail(o *Out) {
	ctx := context.Background()
	kinds := map[string]error{"http403": webdav.NewHTTPError(403, fmt.Errorf("no")), "http404": webdav.NewHTTPError(404, fmt.Errorf("no")),
		"http423": webdav.NewHTTPError(423, fmt.Errorf("no")), "http507": webdav.NewHTTPError(507, fmt.Errorf("no")),
		"exist": os.ErrExist, "plain": fmt.Errorf("backend exploded")}
	ops := map[string]func(c *webdav.Client) error{
		"stat":      func(c *webdav.Client) error { _, err := c.Stat(ctx, "/x"); return err },
		"readdir":   func(c *webdav.Client) error { _, err := c.ReadDir(ctx, "/", false); return err },
		"open":      func(c *webdav.Client) error { _, err := c.Open(ctx, "/x"); return err },
		"removeall": func(c *webdav.Client) error { return c.RemoveAll(ctx, "/x") },
		"mkdir":     func(c *webdav.Client) error { return c.Mkdir(ctx, "/x") },
		"copy":      func(c *webdav.Client) error { return c.Copy(ctx, "/x", "/y", nil) },
		"move":      func(c *webdav.Client) error { return c.Move(ctx, "/x", "/y", nil) },
		"create": func(c *webdav.Client) error {
			w, err := c.Create(ctx, "/x")
			if err != nil {
				return err
			}
			w.Write([]byte("data"))
			return w.Close()
		},
	}
	var kn, on []string
	for k := range kinds {
		kn = append(kn, k)
	}
	for k := range ops {
		on = append(on, k)
	}
	sort.Strings(kn)
	sort.Strings(on)
	for _, k := range kn {
		for _, op := range on {
			m := newMemFS()
			m.fail = kinds[k]
			hc := &handlerClient{h: &webdav.Handler{FileSystem: m}}
			res := guard(func() string {
				c, _ := webdav.NewClient(hc, "http://example.com/")
				err := ops[op](c)
				if err == nil {
					return "ok"
				}
				var he *internal.HTTPError
				if errors.As(err, &he) {
					return itoa(he.Code)
				}
				return "plain"
			})
			o.Emit("dav.fail", op+" "+k, res)
		}
	}
}

func famDavWire(o *Out, r *RNG, thorough bool) {
	emitDavFail(o)
	n := 200
	if thorough {
		n = 4000
	}
	for i := 0; i < n; i++ {
		emitDavRead(o, r)
		emitDavOps(o, r)
		if i%4 == 0 {
			emitDavLocal(o, r)
		}
	}
}

func init() { families["davwire"] = famDavWire }
