module github.com/emersion/go-webdav/verifharness

go 1.13

require (
	github.com/emersion/go-ical v0.0.0-20240127095438-fc1c9d8fb2b6
	github.com/emersion/go-vcard v0.0.0-20230815062825-8fda7d206ec9
	github.com/emersion/go-webdav v0.0.0
)

replace github.com/emersion/go-webdav => /repo
