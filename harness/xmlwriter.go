package main

import (
	"fmt"
	"strings"
)

// Independent XML writer with lexical variation (prefixes vs default namespaces, white space, comments, attribute
// order, CDATA/entities): used to produce RFC-conformant request documents and multi-status bodies that do not
// come from go-webdav's own encoder.

type wEl struct {
	ns, local string
	attrs     [][2]string // local name, value (un-namespaced attributes)
	children  []*wEl
	text      string
	hasText   bool
}

func E(ns, local string, children ...*wEl) *wEl {
	return &wEl{ns: ns, local: local, children: children}
}
func (e *wEl) A(k, v string) *wEl { e.attrs = append(e.attrs, [2]string{k, v}); return e }
func (e *wEl) T(s string) *wEl    { e.text = s; e.hasText = true; return e }
func (e *wEl) Add(c ...*wEl) *wEl { e.children = append(e.children, c...); return e }

type wStyle struct {
	r        *RNG
	prefixes map[string]string // ns -> prefix ("" = use default namespace declarations)
	indent   bool
	comments bool
	cdata    bool
	swapAttr bool
	extras   bool // unknown extra children / attributes
}

func randStyle(r *RNG) *wStyle {
	st := &wStyle{r: r, prefixes: map[string]string{}}
	switch r.Intn(4) {
	case 0: // all default-namespace declarations
	case 1:
		st.prefixes["DAV:"] = "D"
		st.prefixes["urn:ietf:params:xml:ns:carddav"] = "C"
		st.prefixes["urn:ietf:params:xml:ns:caldav"] = "C"
	case 2:
		st.prefixes["DAV:"] = "d"
	case 3:
		st.prefixes["urn:ietf:params:xml:ns:carddav"] = "card"
		st.prefixes["urn:ietf:params:xml:ns:caldav"] = "cal"
	}
	st.indent = r.Chance(50)
	st.comments = r.Chance(25)
	st.cdata = r.Chance(25)
	st.swapAttr = r.Chance(50)
	st.extras = r.Chance(20)
	return st
}

func escText(s string) string {
	s = strings.Replace(s, "&", "&amp;", -1)
	s = strings.Replace(s, "<", "&lt;", -1)
	s = strings.Replace(s, ">", "&gt;", -1)
	s = strings.Replace(s, "\r", "&#13;", -1)
	return s
}
func escAttr(s string) string {
	s = escText(s)
	s = strings.Replace(s, "\"", "&quot;", -1)
	s = strings.Replace(s, "\n", "&#10;", -1)
	s = strings.Replace(s, "\t", "&#9;", -1)
	return s
}

func (st *wStyle) write(b *strings.Builder, e *wEl, inDefault string, declared map[string]bool, depth int, top bool) {
	name := e.local
	var decls []string
	newDefault := inDefault
	declared2 := declared
	if p, ok := st.prefixes[e.ns]; ok && p != "" && e.ns != "" {
		name = p + ":" + e.local
		if !declared[e.ns] {
			decls = append(decls, fmt.Sprintf(`xmlns:%s="%s"`, p, e.ns))
			declared2 = map[string]bool{}
			for k, v := range declared {
				declared2[k] = v
			}
			declared2[e.ns] = true
		}
	} else if e.ns != inDefault {
		decls = append(decls, fmt.Sprintf(`xmlns="%s"`, e.ns))
		newDefault = e.ns
	}
	b.WriteString("<" + name)
	attrs := append([][2]string(nil), e.attrs...)
	if st.swapAttr && len(attrs) > 1 {
		attrs[0], attrs[len(attrs)-1] = attrs[len(attrs)-1], attrs[0]
	}
	if st.extras && st.r.Chance(30) {
		attrs = append(attrs, [2]string{"x-unknown", "1"})
	}
	parts := append(decls, nil...)
	for _, a := range attrs {
		parts = append(parts, fmt.Sprintf(`%s="%s"`, a[0], escAttr(a[1])))
	}
	if st.swapAttr && len(parts) > 1 && st.r.Bool() {
		parts[0], parts[len(parts)-1] = parts[len(parts)-1], parts[0]
	}
	for _, p := range parts {
		b.WriteString(" " + p)
	}
	if len(e.children) == 0 && !e.hasText {
		if st.r.Bool() {
			b.WriteString("/>")
		} else {
			b.WriteString("></" + name + ">")
		}
		return
	}
	b.WriteString(">")
	if e.hasText {
		// (a carriage return cannot be written literally, in a CDATA section or outside: every XML reader turns it
		// into a line feed; only the character reference &#13; denotes it)
		if st.cdata && !strings.Contains(e.text, "]]>") && !strings.Contains(e.text, "\r") && st.r.Bool() {
			b.WriteString("<![CDATA[" + e.text + "]]>")
		} else {
			b.WriteString(escText(e.text))
		}
	}
	ws := func() {
		if st.indent && !e.hasText {
			b.WriteString("\n" + strings.Repeat("  ", depth+1))
		}
	}
	for _, c := range e.children {
		ws()
		if st.comments && !e.hasText && st.r.Chance(40) {
			b.WriteString("<!-- c -->")
			ws()
		}
		st.write(b, c, newDefault, declared2, depth+1, false)
	}
	if st.extras && !e.hasText && st.r.Chance(30) {
		ws()
		b.WriteString(`<x:unknown-extension xmlns:x="urn:unknown"><x:y/></x:unknown-extension>`)
	}
	if st.indent && !e.hasText {
		b.WriteString("\n" + strings.Repeat("  ", depth))
	}
	b.WriteString("</" + name + ">")
}

func (st *wStyle) doc(e *wEl) string {
	var b strings.Builder
	if st.r.Bool() {
		b.WriteString(`<?xml version="1.0" encoding="utf-8"?>`)
		if st.indent {
			b.WriteString("\n")
		}
	}
	st.write(&b, e, "", map[string]bool{}, 0, true)
	return b.String()
}
