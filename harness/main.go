package main

import (
	"flag"
	"fmt"
	"os"
	"sort"
)

type family func(o *Out, r *RNG, thorough bool)

var families = map[string]family{}

func main() {
	if len(os.Args) < 3 || os.Args[1] != "gen" {
		names := []string{}
		for k := range families {
			names = append(names, k)
		}
		sort.Strings(names)
		fmt.Fprintf(os.Stderr, "usage: harness gen <family> [-tier quick|thorough] [-seed N]\nfamilies: %v\n", names)
		os.Exit(2)
	}
	fam := os.Args[2]
	fs := flag.NewFlagSet("gen", flag.ExitOnError)
	tier := fs.String("tier", "quick", "quick|thorough")
	seed := fs.Uint64("seed", 1, "seed")
	fs.Parse(os.Args[3:])
	f, ok := families[fam]
	if !ok {
		fmt.Fprintf(os.Stderr, "unknown family %q\n", fam)
		os.Exit(2)
	}
	o := NewOut()
	f(o, NewRNG(*seed), *tier == "thorough")
	o.Close()
}
