package main

import (
	"bytes"
	"context"
	"encoding/xml"
	"errors"
	"fmt"
	"io"
	"mime"
	"net/http"
	"net/http/httptest"
	"net/url"
	"os"
	"path/filepath"
	"regexp"
	"sort"
	"strings"
	"sync"
	"time"

	webdav "github.com/emersion/go-webdav"
	"github.com/emersion/go-webdav/internal"
)

// C01 / C02 / C03 / C17 (+ the file-server part of C04, C13): (*webdav.Handler).ServeHTTP over LocalFileSystem

type fsEntry struct {
	path    string // "/a/b"
	dir     bool
	content string
}

type sandbox struct {
	base, root string
	canary     string
	h          *webdav.Handler
}

func newSandbox(spelling int) *sandbox {
	tmp := os.TempDir()
	if st, err := os.Stat("/dev/shm"); err == nil && st.IsDir() {
		tmp = "/dev/shm"
	}
	base, err := os.MkdirTemp(tmp, fmt.Sprintf("verif-fs-%d-", os.Getpid()))
	if err != nil {
		panic(err)
	}
	sb := &sandbox{base: base, root: filepath.Join(base, "served", "root")}
	os.MkdirAll(filepath.Join(base, "served", "sibling"), 0755)
	os.WriteFile(filepath.Join(base, "canary.txt"), []byte("parent canary"), 0644)
	os.WriteFile(filepath.Join(base, "served", "canary.txt"), []byte("canary"), 0644)
	os.WriteFile(filepath.Join(base, "served", "sibling", "canary.txt"), []byte("sibling canary"), 0644)
	os.WriteFile(filepath.Join(base, "served", "rootx"), []byte("prefix sibling"), 0644)
	// the served directory is configured in different spellings of the same directory (an operator may write any of
	// them): clean, trailing slash, "/./", "//", through a sibling and back
	spelled := sb.root
	switch spelling % 6 {
	case 5:
		// a relative served directory (the process runs with the temp directory as its working directory)
		if wd, err := os.Getwd(); err == nil {
			if rel, err := filepath.Rel(wd, sb.root); err == nil && !strings.HasPrefix(rel, "..") {
				spelled = rel
			}
		}
	case 1:
		spelled = sb.root + "/"
	case 2:
		spelled = base + "/served/./root"
	case 3:
		spelled = base + "/served//root"
	case 4:
		spelled = base + "/served/sibling/../root"
	}
	sb.h = &webdav.Handler{FileSystem: webdav.LocalFileSystem(spelled)}
	sb.canary = sb.outside()
	return sb
}

func (sb *sandbox) close() { os.RemoveAll(sb.base) }

// everything outside the served root, as one string
func (sb *sandbox) outside() string {
	var b strings.Builder
	filepath.Walk(sb.base, func(p string, fi os.FileInfo, err error) error {
		if err != nil {
			return nil
		}
		if p == sb.root {
			if fi.IsDir() {
				return filepath.SkipDir
			}
			return nil
		}
		fmt.Fprintf(&b, "%s|%v|", p, fi.IsDir())
		if !fi.IsDir() {
			c, _ := os.ReadFile(p)
			b.Write(c)
		}
		b.WriteByte('\n')
		return nil
	})
	return b.String()
}

func (sb *sandbox) reset(tree []fsEntry) {
	os.RemoveAll(sb.root)
	// parents first
	sorted := append([]fsEntry(nil), tree...)
	sort.Slice(sorted, func(i, j int) bool { return len(sorted[i].path) < len(sorted[j].path) })
	for _, e := range sorted {
		p := filepath.Join(sb.root, filepath.FromSlash(e.path))
		if e.dir {
			os.MkdirAll(p, 0755)
		} else {
			os.WriteFile(p, []byte(e.content), 0644)
		}
	}
}

func (sb *sandbox) listing() []fsEntry {
	var out []fsEntry
	filepath.Walk(sb.root, func(p string, fi os.FileInfo, err error) error {
		if err != nil {
			return nil
		}
		rel, _ := filepath.Rel(sb.root, p)
		ext := "/" + filepath.ToSlash(rel)
		if rel == "." {
			ext = "/"
		}
		if fi.IsDir() {
			out = append(out, fsEntry{path: ext, dir: true})
		} else {
			c, _ := os.ReadFile(p)
			out = append(out, fsEntry{path: ext, content: string(c)})
		}
		return nil
	})
	return out
}

func sxTree(tree []fsEntry) string {
	var items []string
	for _, e := range tree {
		if e.dir {
			items = append(items, sx(hx(e.path), "d"))
		} else {
			items = append(items, sx(hx(e.path), "f", hx(e.content)))
		}
	}
	sort.Strings(items)
	return sxl(items)
}

type fsReq struct {
	method, path string
	depth, ow    string
	dest         *string // raw Destination header
	ifm, ifnm    byte    // u s c o m
	ctype        string
	body         string
	fault        int  // -1 = none
	cancelAt     int  // 0 = none; k+1 = the request context is cancelled once k body bytes were read (1 = before the handler runs), the body itself reads on to EOF
	pf           byte // a n f o m : form of the XML body (when ctype is XML)
}

type faultReader struct {
	data  []byte
	limit int
	err   error // what the reader fails with (a plain error when nil)
}

// the ways a request body breaks off: a plain error, a truncated transfer, a size limit put in front of the handler
// (http.MaxBytesReader), a deadline
func bodyFault(k int) error {
	switch k % 4 {
	case 1:
		return io.ErrUnexpectedEOF
	case 2:
		return &http.MaxBytesError{Limit: 1}
	case 3:
		return os.ErrDeadlineExceeded
	}
	return errors.New("verif: injected body fault")
}

func (f *faultReader) Read(p []byte) (int, error) {
	if f.limit <= 0 {
		if f.err != nil {
			return 0, f.err
		}
		return 0, errors.New("verif: injected body fault")
	}
	n := len(p)
	if n > f.limit {
		n = f.limit
	}
	if n > len(f.data) {
		n = len(f.data)
	}
	if n == 0 {
		if f.err != nil {
			return 0, f.err
		}
		return 0, errors.New("verif: injected body fault")
	}
	copy(p, f.data[:n])
	f.data = f.data[n:]
	f.limit -= n
	return n, nil
}
func (f *faultReader) Close() error { return nil }

// cancelReader cancels the request context after `at` bytes and keeps delivering the body: a client that goes away
// right after sending a small body which the server has already buffered
type cancelReader struct {
	data   []byte
	read   int
	at     int
	cancel func()
}

func (c *cancelReader) Read(p []byte) (int, error) {
	if c.read >= c.at {
		c.cancel()
	}
	if len(c.data) == 0 {
		return 0, io.EOF
	}
	n := len(p)
	if c.read < c.at && n > c.at-c.read {
		n = c.at - c.read
	}
	if n > len(c.data) {
		n = len(c.data)
	}
	copy(p, c.data[:n])
	c.data = c.data[n:]
	c.read += n
	return n, nil
}
func (c *cancelReader) Close() error { return nil }

var pfBodies = map[byte]string{
	'a': `<?xml version="1.0"?><D:propfind xmlns:D="DAV:"><D:allprop/></D:propfind>`,
	'n': `<?xml version="1.0"?><propfind xmlns="DAV:"><propname/></propfind>`,
	'f': `<?xml version="1.0"?><D:propfind xmlns:D="DAV:"><D:prop><D:resourcetype/><D:getcontentlength/><D:getlastmodified/><D:getcontenttype/><D:getetag/></D:prop></D:propfind>`,
	'o': `<?xml version="1.0"?><D:propfind xmlns:D="DAV:"><D:include/></D:propfind>`,
	'm': `<?xml version="1.0"?><D:propfind xmlns:D="DAV:"><D:allprop>`,
}

func localEtag(p string) (string, bool) {
	fi, err := os.Stat(p)
	if err != nil {
		return "", false
	}
	return fmt.Sprintf("%x%x", fi.ModTime().UnixNano(), fi.Size()), true
}

var badDepths = []string{"x", "0,1", "infinity,bogus", "1,noroot", "INFINITY", "2", "infinity,0", "-1", "0;x", "1.0"}

var fsExtraHeaders = [][2]string{{"Content-MD5", "AAAAAAAAAAAAAAAAAAAAAA=="}, {"X-Expected-Entity-Length", "5"}, {"Content-Language", "en"}, {"Translate", "f"},
	{"Accept-Encoding", "gzip"}, {"User-Agent", "Microsoft-WebDAV-MiniRedir/10.0.19045"}, {"Accept", "text/html"}, {"Cache-Control", "no-cache"}, {"Brief", "t"},
	{"Prefer", "return=minimal"}, {"X-OC-Mtime", "1700000000"}, {"Connection", "close"}, {"Content-Disposition", "attachment; filename=\"other.txt\""}}

type msResponse struct {
	Hrefs     []string `xml:"DAV: href"`
	PropStats []struct {
		Status string `xml:"DAV: status"`
		Prop   struct {
			ResourceType *struct {
				Collection *struct{} `xml:"DAV: collection"`
			} `xml:"DAV: resourcetype"`
			Length *string `xml:"DAV: getcontentlength"`
			ETag   *string `xml:"DAV: getetag"`
		} `xml:"DAV: prop"`
	} `xml:"DAV: propstat"`
}
type msDoc struct {
	XMLName   xml.Name     `xml:"DAV: multistatus"`
	Responses []msResponse `xml:"DAV: response"`
}

func (sb *sandbox) do(rq fsReq) (line string, goOut string) {
	if rq.ifm == 0 {
		rq.ifm = 'u'
	}
	if rq.ifnm == 0 {
		rq.ifnm = 'u'
	}
	pre := sb.listing()
	hostTarget := ""
	if lp, err := webdavLocal(sb.root, rq.path); err == nil {
		hostTarget = lp
	}
	curTag, exists := "", false
	if hostTarget != "" {
		curTag, exists = localEtag(hostTarget)
	}
	_ = exists
	hdr := http.Header{}
	cond := func(v byte) (string, bool) {
		switch v {
		case 's':
			return "*", true
		case 'c':
			if curTag == "" {
				return internal.ETag("c").String(), true
			}
			return internal.ETag(curTag).String(), true
		case 'o':
			return internal.ETag("0ther" + curTag).String(), true
		case 'm':
			// not a quoted string: the bare tag, or one of the other malformed spellings (by request, deterministic)
			alt := []string{"", "W/", "W", "\"", "W/x", "\"abc", "abc\"", "'a'", "W/\"", "\\"}
			k := (len(rq.path)*7 + len(rq.method)*3 + len(rq.body) + int(rq.ifm) + 2*int(rq.ifnm)) % (2 * len(alt))
			if k < len(alt) && alt[k] != "" {
				return alt[k], true
			}
			if curTag == "" {
				return "c", true
			}
			return curTag, true
		}
		return "", false
	}
	if v, ok := cond(rq.ifm); ok {
		hdr.Set("If-Match", v)
	}
	if v, ok := cond(rq.ifnm); ok {
		hdr.Set("If-None-Match", v)
	}
	if rq.depth != "" {
		hdr.Set("Depth", rq.depth)
	}
	if rq.ow != "" {
		hdr.Set("Overwrite", rq.ow)
	}
	destView := "n"
	if rq.dest != nil {
		hdr.Set("Destination", *rq.dest)
		if *rq.dest != "" {
			if u, err := url.Parse(*rq.dest); err != nil {
				destView = "u"
			} else {
				destView = sx("p", hx(u.Path))
			}
		}
	}
	ctypeXml := false
	if rq.ctype != "" {
		hdr.Set("Content-Type", rq.ctype)
		t, _, _ := mime.ParseMediaType(rq.ctype)
		ctypeXml = t == "application/xml" || t == "text/xml"
	}
	// header fields that say nothing about which resource is meant or under which condition (a third of the
	// requests carries one, chosen by the request itself; the model is not told)
	{
		k := (len(rq.path)*5 + len(rq.method)*11 + len(rq.body)*3 + len(rq.depth) + int(rq.ifm) + len(pre)) % (3 * len(fsExtraHeaders))
		if k < len(fsExtraHeaders) {
			hdr.Set(fsExtraHeaders[k][0], fsExtraHeaders[k][1])
		}
	}
	body := rq.body
	pf := rq.pf
	if (rq.method == "PROPFIND" || rq.method == "PROPPATCH") && rq.pf != 0 && rq.body == "" {
		body = pfBodies[rq.pf]
		if rq.method == "PROPPATCH" {
			body = `<?xml version="1.0"?><D:propertyupdate xmlns:D="DAV:"><D:set><D:prop><D:displayname>x</D:displayname></D:prop></D:set></D:propertyupdate>`
			// (other well-formed updates, by the request itself: a dead property of a foreign namespace as Windows
			// clients set it, a removal, several instructions)
			switch (len(rq.path) + len(pre)) % 4 {
			case 1:
				body = `<?xml version="1.0"?><D:propertyupdate xmlns:D="DAV:" xmlns:Z="urn:schemas-microsoft-com:"><D:set><D:prop><Z:Win32LastModifiedTime>Sat, 26 Sep 2026 10:00:00 GMT</Z:Win32LastModifiedTime></D:prop></D:set></D:propertyupdate>`
			case 2:
				body = `<?xml version="1.0"?><D:propertyupdate xmlns:D="DAV:"><D:remove><D:prop><x:color xmlns:x="urn:x"/></D:prop></D:remove></D:propertyupdate>`
			case 3:
				body = `<?xml version="1.0"?><propertyupdate xmlns="DAV:"><remove><prop><displayname/></prop></remove><set><prop><c:color xmlns:c="urn:example:z">red</c:color><displayname>y</displayname></prop></set></propertyupdate>`
			}
			if rq.pf == 'm' {
				body = `<D:propertyupdate xmlns:D="DAV:">`
			}
		}
	}
	if pf == 0 {
		pf = 'a'
	}
	var rdr io.ReadCloser = io.NopCloser(strings.NewReader(body))
	if body == "" {
		rdr = http.NoBody
	}
	faultTok := "n"
	if rq.fault >= 0 {
		rdr = &faultReader{data: []byte(body), limit: rq.fault, err: bodyFault(len(rq.path) + rq.fault + len(pre))}
		faultTok = fmt.Sprint(rq.fault)
	}
	reqCtx := bgCtx
	if rq.cancelAt > 0 && rq.fault < 0 {
		ctx, cancel := context.WithCancel(bgCtx)
		defer cancel()
		reqCtx = ctx
		if rq.cancelAt == 1 {
			cancel()
		}
		rdr = &cancelReader{data: []byte(body), at: rq.cancelAt - 1, cancel: cancel}
		faultTok = fmt.Sprintf("c%d", rq.cancelAt-1)
	}
	req := &http.Request{Method: rq.method, URL: &url.URL{Path: rq.path}, Header: hdr, Body: rdr, Proto: "HTTP/1.1", ProtoMajor: 1, ProtoMinor: 1, Host: "example.com"}
	req = req.WithContext(reqCtx)
	rec := httptest.NewRecorder()
	panicked := false
	done := make(chan struct{})
	go func() {
		defer close(done)
		defer func() {
			if r := recover(); r != nil {
				panicked = true
			}
		}()
		sb.h.ServeHTTP(rec, req)
	}()
	select {
	case <-done:
	case <-time.After(8 * time.Second):
		// the handler does not return (e.g. a COPY into its own subtree that keeps walking what it creates):
		// report it and stop the whole process, the goroutine cannot be cancelled
		reqSx := sx("req", hx(rq.method), hx(rq.path), hx(rq.depth), hx(rq.ow), destView, string(rq.ifm), string(rq.ifnm),
			b01(rq.ctype != ""), b01(ctypeXml), hx(body), faultTok, string(pf))
		fmt.Printf("fs.req %s %s => hang\n", sxTree(pre), reqSx)
		os.Stdout.Sync()
		fmt.Fprintln(os.Stderr, "handler did not return within 8s; aborting the run")
		os.Exit(3)
	}
	reqSx := sx("req", hx(rq.method), hx(rq.path), hx(rq.depth), hx(rq.ow), destView, string(rq.ifm), string(rq.ifnm),
		b01(rq.ctype != ""), b01(ctypeXml), hx(body), faultTok, string(pf))
	line = sxTree(pre) + " " + reqSx
	post := sb.listing()
	if panicked {
		return line, "panic"
	}
	if len(post) > 400 && len(post) > 2*len(pre)+10 {
		// a request of this universe can at most double a tree of a dozen entries: the handler ran away
		// (e.g. a COPY into its own subtree that walks what it creates until the path is too long)
		return line, fmt.Sprintf("runaway-tree %d", len(post))
	}
	res := rec.Result()
	respBody, _ := io.ReadAll(res.Body)
	status := res.StatusCode
	allow := "-"
	if a := res.Header.Values("Allow"); len(a) > 0 {
		var ms []string
		for _, v := range a {
			for _, m := range strings.Split(v, ",") {
				if m = strings.TrimSpace(m); m != "" {
					ms = append(ms, m)
				}
			}
		}
		sort.Strings(ms)
		allow = strings.Join(ms, ",")
	}
	dav := false
	for _, v := range res.Header.Values("Dav") {
		for _, c := range strings.Split(v, ",") {
			if strings.TrimSpace(c) == "1" {
				dav = true
			}
		}
	}
	length := "-"
	bodyTok := "~"
	if status == 200 && (rq.method == "GET" || rq.method == "HEAD") {
		length = res.Header.Get("Content-Length")
		if length == "" {
			length = "-"
		}
		if rq.method == "GET" {
			bodyTok = hxb(respBody)
		}
	}
	tagged := false
	if status/100 == 2 && (rq.method == "GET" || rq.method == "HEAD" || rq.method == "PUT") && hostTarget != "" {
		if now, ok := localEtag(hostTarget); ok {
			tagged = res.Header.Get("ETag") == internal.ETag(now).String() && res.Header.Get("Last-Modified") != ""
		}
	}
	if tagged && rq.method == "HEAD" && status == 200 {
		// HEAD announces what GET would send: the same entity headers (the model only carries one flag for them)
		greq := &http.Request{Method: "GET", URL: &url.URL{Path: rq.path}, Header: hdr.Clone(), Body: http.NoBody, Proto: "HTTP/1.1", ProtoMajor: 1, ProtoMinor: 1, Host: "example.com"}
		grec := httptest.NewRecorder()
		func() {
			defer func() { recover() }()
			sb.h.ServeHTTP(grec, greq)
		}()
		gres := grec.Result()
		for _, k := range []string{"Content-Type", "Content-Length", "Etag", "Last-Modified", "Content-Encoding"} {
			if strings.Join(res.Header.Values(k), "\x00") != strings.Join(gres.Header.Values(k), "\x00") {
				tagged = false
			}
		}
	}
	multi := "( )"
	if status == 207 {
		var doc msDoc
		if err := xml.Unmarshal(respBody, &doc); err != nil {
			multi = "( ( - 0 unparsable ) )"
		} else {
			var items []string
			for _, r := range doc.Responses {
				href := ""
				if len(r.Hrefs) == 1 {
					if u, err := url.Parse(r.Hrefs[0]); err == nil {
						href = u.Path
					} else {
						href = "\x00bad-href"
					}
				} else {
					href = fmt.Sprintf("\x00%d-hrefs", len(r.Hrefs))
				}
				coll, size := false, "-"
				for _, ps := range r.PropStats {
					if !strings.Contains(ps.Status, " 200 ") {
						continue
					}
					if ps.Prop.ResourceType != nil && ps.Prop.ResourceType.Collection != nil {
						coll = true
					}
					if ps.Prop.Length != nil && strings.TrimSpace(*ps.Prop.Length) != "" {
						size = strings.TrimSpace(*ps.Prop.Length)
					}
				}
				items = append(items, sx(hx(href), b01(coll), size))
				// the tag a listing announces for a member is the tag GET, HEAD and PUT announce for it (the one a
				// conditional request on it is judged by): a pseudo entry marks a member listed with another one
				for _, ps := range r.PropStats {
					if strings.Contains(ps.Status, " 200 ") && ps.Prop.ETag != nil && !coll && len(r.Hrefs) == 1 && !strings.HasPrefix(href, "\x00") {
						if hp, err := webdavLocal(sb.root, href); err == nil {
							// (a propname answer lists the name without a value)
							if now, ok := localEtag(hp); ok && strings.TrimSpace(*ps.Prop.ETag) != "" && strings.TrimSpace(*ps.Prop.ETag) != internal.ETag(now).String() {
								items = append(items, sx(hx("\x00tag:"+href), "0", "-"))
							}
						}
					}
				}
			}
			sort.Strings(items)
			multi = sxl(items)
		}
	}
	leak := false
	// the name of the temporary directory: it is part of every spelling of the host path, absolute or relative to
	// the working directory, and of nothing a client may legitimately see
	needle := filepath.Base(sb.base)
	if bytes.Contains(respBody, []byte(needle)) {
		leak = true
	}
	for _, vs := range res.Header {
		for _, v := range vs {
			if strings.Contains(v, needle) {
				leak = true
			}
		}
	}
	canary := sb.outside() != sb.canary
	goOut = fmt.Sprintf("%d %s %s %s %s %s %s %s %s %s", status, allow, b01(dav), length, b01(tagged), bodyTok, multi, sxTree(post), b01(leak), b01(canary))
	return line, goOut
}

func webdavLocal(root, name string) (string, error) {
	return webdav.VerifLocalPath(webdav.LocalFileSystem(root), name)
}

// the bounded universe of trees: names {a, b}, depth <= 2, contents {"", "x"}
func universeTrees() [][]fsEntry {
	type top struct{ entries []fsEntry }
	variants := func(name string) [][]fsEntry {
		var vs [][]fsEntry
		vs = append(vs, nil)
		vs = append(vs, []fsEntry{{path: "/" + name, content: ""}})
		vs = append(vs, []fsEntry{{path: "/" + name, content: "x"}})
		childOpts := func(c string) [][]fsEntry {
			return [][]fsEntry{nil, {{path: "/" + name + "/" + c, content: "x"}}, {{path: "/" + name + "/" + c, dir: true}}}
		}
		for _, ca := range childOpts("a") {
			for _, cb := range childOpts("b") {
				v := []fsEntry{{path: "/" + name, dir: true}}
				v = append(v, ca...)
				v = append(v, cb...)
				vs = append(vs, v)
			}
		}
		return vs
	}
	var trees [][]fsEntry
	for _, va := range variants("a") {
		for _, vb := range variants("b") {
			t := []fsEntry{{path: "/", dir: true}}
			t = append(t, va...)
			t = append(t, vb...)
			trees = append(trees, t)
		}
	}
	return trees
}

func sp(s string) *string { return &s }

func universeRequests(thorough bool, salt int) []fsReq {
	paths := []string{"/", "/a", "/b", "/a/a", "/a/b", "/a/a/a", "/c", "/a/"}
	var rs []fsReq
	keep := func(i int) bool { return thorough || (i*7+salt)%10 == 0 }
	n := 0
	for _, p := range paths {
		rs = append(rs, fsReq{method: "OPTIONS", path: p, fault: -1}, fsReq{method: "GET", path: p, fault: -1}, fsReq{method: "HEAD", path: p, fault: -1},
			fsReq{method: "LOCK", path: p, fault: -1}, fsReq{method: "POST", path: p, fault: -1})
		// PUT / DELETE x conditional headers
		for _, im := range []byte("uscom") {
			for _, inm := range []byte("uscom") {
				n++
				if !keep(n) && !(im == 'u' && inm == 'u') {
					continue
				}
				rs = append(rs, fsReq{method: "PUT", path: p, body: "new", ifm: im, ifnm: inm, fault: -1})
				rs = append(rs, fsReq{method: "DELETE", path: p, ifm: im, ifnm: inm, fault: -1})
			}
		}
		rs = append(rs, fsReq{method: "PUT", path: p, body: "", fault: -1}, fsReq{method: "PUT", path: p, body: "hello", fault: 0}, fsReq{method: "PUT", path: p, body: "hello", fault: 3})
		// the request context is cancelled at an offset while the body still reads to its end
		for _, at := range []int{0, 2, 5} {
			rs = append(rs, fsReq{method: "PUT", path: p, body: "hello", fault: -1, cancelAt: at + 1})
		}
		rs = append(rs, fsReq{method: "PUT", path: p, body: "new", ifnm: 's', fault: -1, cancelAt: 1}, fsReq{method: "PUT", path: p, body: "new", ifm: 'c', fault: -1, cancelAt: 1},
			fsReq{method: "DELETE", path: p, fault: -1, cancelAt: 1}, fsReq{method: "MKCOL", path: p, fault: -1, cancelAt: 1},
			// the client is gone before a COPY / MOVE onto an existing or a new destination
			fsReq{method: "COPY", path: p, dest: sp("/b"), fault: -1, cancelAt: 1}, fsReq{method: "COPY", path: p, dest: sp("/c"), fault: -1, cancelAt: 1},
			fsReq{method: "MOVE", path: p, dest: sp("/b"), fault: -1, cancelAt: 1}, fsReq{method: "COPY", path: p, dest: sp("/a/a"), depth: "0", fault: -1, cancelAt: 1})
		for _, ct := range []string{"", "application/xml", "text/plain"} {
			rs = append(rs, fsReq{method: "MKCOL", path: p, ctype: ct, fault: -1})
		}
		for _, d := range []string{"", "0", "1", "infinity", "2", "0,1", "1,noroot", "infinity,bogus", "Infinity", "00"} {
			rs = append(rs, fsReq{method: "PROPFIND", path: p, depth: d, fault: -1})
			for _, pf := range []byte("anfom") {
				n++
				if keep(n) || d == "1" {
					rs = append(rs, fsReq{method: "PROPFIND", path: p, depth: d, ctype: "application/xml", pf: pf, fault: -1})
				}
			}
		}
		rs = append(rs, fsReq{method: "PROPFIND", path: p, ctype: "text/plain", body: "x", fault: -1},
			fsReq{method: "PROPFIND", path: p, ctype: "text/xml; charset=utf-8", fault: -1},
			fsReq{method: "PROPPATCH", path: p, ctype: "application/xml", pf: 'a', fault: -1},
			fsReq{method: "PROPPATCH", path: p, fault: -1},
			fsReq{method: "PROPPATCH", path: p, ctype: "application/xml", pf: 'm', fault: -1})
		// COPY / MOVE
		dests := []*string{nil, sp("/"), sp("/a"), sp("/b"), sp("/a/a"), sp("/a/b"), sp("/a/a/a"), sp("/c"), sp("/c/d"), sp("/b/"), sp("http://other.example/b"), sp("b"), sp("/%zz"), sp("/a%2Fb"), sp("//host/b"),
			// Destinations whose URL has an empty path
			sp("http://example.com"), sp("?x=1"), sp("#frag"), sp("mailto:root")}
		for _, m := range []string{"COPY", "MOVE"} {
			for _, d := range dests {
				for _, depth := range []string{"", "0", "1", "infinity", "x"} {
					for _, ow := range []string{"", "T", "F", "t"} {
						n++
						if depth == "x" {
							// values that are not one of the three: also those that begin like one
							depth = badDepths[n%len(badDepths)]
						}
						if !keep(n) && !(depth == "" && ow == "") && !(depth == "0" && ow == "F") {
							continue
						}
						rs = append(rs, fsReq{method: m, path: p, dest: d, depth: depth, ow: ow, fault: -1})
					}
				}
			}
		}
	}
	// names the operating system refuses for a reason the server has no specific status for (a component longer
	// than 255 bytes: ENAMETOOLONG): the model abstains, the answer is judged for what it discloses and changes
	long := "/a/" + strings.Repeat("n", 300)
	for _, m := range []string{"GET", "HEAD", "OPTIONS", "PROPFIND", "DELETE", "MKCOL"} {
		rs = append(rs, fsReq{method: m, path: long, fault: -1})
	}
	rs = append(rs, fsReq{method: "PUT", path: long, body: "x", fault: -1})
	for _, m := range []string{"COPY", "MOVE"} {
		rs = append(rs, fsReq{method: m, path: long, dest: sp("/c"), fault: -1}, fsReq{method: m, path: "/a", dest: sp(long), fault: -1},
			fsReq{method: m, path: "/b", dest: sp(long), ow: "F", fault: -1})
	}
	return rs
}

func famFsReq(o *Out, r *RNG, thorough bool) {
	// the working directory is the directory the sandboxes live in, so that a served directory can be given relatively
	if st, err := os.Stat("/dev/shm"); err == nil && st.IsDir() {
		os.Chdir("/dev/shm")
	} else {
		os.Chdir(os.TempDir())
	}
	trees := universeTrees()
	type result struct{ lines []string }
	results := make([]result, len(trees))
	var wg sync.WaitGroup
	sem := make(chan struct{}, 12)
	for ti := range trees {
		wg.Add(1)
		sem <- struct{}{}
		go func(ti int) {
			defer wg.Done()
			defer func() { <-sem }()
			sb := newSandbox(ti)
			defer sb.close()
			reqs := universeRequests(thorough, ti)
			var lines []string
			sb.reset(trees[ti])
			base := sxTree(sb.listing())
			for _, rq := range reqs {
				line, out := sb.do(rq)
				lines = append(lines, "fs.req "+line+" => "+out)
				if sxTree(sb.listing()) != base {
					sb.reset(trees[ti])
				}
			}
			results[ti] = result{lines}
		}(ti)
	}
	wg.Wait()
	for _, res := range results {
		for _, l := range res.lines {
			fmt.Fprintln(o.w, l)
			o.n++
			f := strings.Fields(l[strings.Index(l, " => ")+4:])
			if len(f) > 0 {
				o.Stat("fsreq.status." + f[0])
			}
		}
	}
	emitFsObs(o)
	// traversal forms and special names against a tree with content (C03 end to end, canaries outside)
	sb := newSandbox(5)
	defer sb.close()
	tree := []fsEntry{{path: "/", dir: true}, {path: "/a", dir: true}, {path: "/a/f", content: "x"}, {path: "/root", content: "r"}}
	sb.reset(tree)
	base := sxTree(sb.listing())
	evil := []string{"/..", "/../canary.txt", "/../sibling/canary.txt", "/a/../../canary.txt", "/../../canary.txt", "/../rootx", "/..%2fcanary.txt", "/%2e%2e/canary.txt", "/\\..\\canary.txt", "/a\x00/../x", "../canary.txt", "/../root/a", "//../canary.txt", "/a/./../..", "/../sibling", "/a/f/..", "/a/f/x", "", ".", "a", "/\x00", "/../served/canary.txt"}
	for _, p := range evil {
		for _, m := range []string{"GET", "PUT", "DELETE", "MKCOL", "PROPFIND", "OPTIONS", "HEAD"} {
			line, out := sb.do(fsReq{method: m, path: p, body: "evil", fault: -1})
			o.Emit("fs.req", line, out)
			if sxTree(sb.listing()) != base {
				sb.reset(tree)
			}
		}
		for _, m := range []string{"COPY", "MOVE"} {
			for _, q := range []string{"/a/f", "/new"} {
				d := (&url.URL{Path: p}).String()
				line, out := sb.do(fsReq{method: m, path: q, dest: &d, fault: -1})
				o.Emit("fs.req", line, out)
				if sxTree(sb.listing()) != base {
					sb.reset(tree)
				}
				raw := p
				line, out = sb.do(fsReq{method: m, path: q, dest: &raw, fault: -1})
				o.Emit("fs.req", line, out)
				if sxTree(sb.listing()) != base {
					sb.reset(tree)
				}
				d2 := "/new2"
				line, out = sb.do(fsReq{method: m, path: p, dest: &d2, fault: -1})
				o.Emit("fs.req", line, out)
				if sxTree(sb.listing()) != base {
					sb.reset(tree)
				}
			}
		}
	}
	// names that are string-prefix related without being path-prefix related, and names that start with dots:
	// every ordered pair as source and destination of COPY and MOVE, over files and collections (overlap guards that
	// compare strings instead of paths, or take "..x" for "..", show here), plus PROPFIND/GET of each
	tree2 := []fsEntry{{path: "/", dir: true}, {path: "/a", dir: true}, {path: "/a/x", content: "1"}, {path: "/ab", content: "2"}, {path: "/a.bak", dir: true},
		{path: "/docs", dir: true}, {path: "/docs/..old", content: "3"}, {path: "/docs/...", dir: true}, {path: "/docs/.../in", content: "4"}, {path: "/docs/r", content: "5"},
		{path: "/.hidden", content: "6"}, {path: "/..data", dir: true}, {path: "/..data/f", content: "7"},
		// siblings named like the temporary files an "atomic write" would use
		{path: "/n", content: "8"}, {path: "/n.tmp", content: "9"}, {path: "/n~", content: "10"}, {path: "/m.tmp", dir: true}, {path: "/m.part", content: "11"}, {path: "/.n.swp", content: "12"},
		// names that end in dots
		{path: "/v1.", dir: true}, {path: "/v1./f", content: "13"}, {path: "/draft.", content: "14"}, {path: "/v1./etc...", content: "15"},
		// names that are not UTF-8 (a Latin-1 file name, a lone continuation byte) and names with characters XML or URLs treat specially
		{path: "/caf\xe9.txt", content: "16"}, {path: "/\xff\xfe", dir: true}, {path: "/\xff\xfe/\x80", content: "17"}, {path: "/a&b<c>.txt", content: "18"}, {path: "/100%.txt", content: "19"}}
	sb.reset(tree2)
	base2 := sxTree(sb.listing())
	names2 := []string{"/a", "/ab", "/a.bak", "/abc", "/a/x", "/a/xy", "/docs", "/docs/..old", "/docs/...", "/docs/.../in", "/docs/..new", "/.hidden", "/..data", "/..data/f", "/.h", "/v1.", "/draft.", "/v1./etc...", "/caf\xe9.txt", "/\xff\xfe", "/\xff\xfe/\x80", "/a&b<c>.txt", "/100%.txt"}
	// request paths that end in a dot or dot-dot segment (the resource is what the cleaned path names)
	for _, p := range []string{"/a/..", "/a/../docs/..", "/docs/.../..", "/v1./.", "/a/.", "/v1./..", "/a/x/.."} {
		for _, depth := range []string{"0", "1"} {
			line, out := sb.do(fsReq{method: "PROPFIND", path: p, depth: depth, pf: 'a', ctype: "application/xml", fault: -1})
			o.Emit("fs.req", line, out)
		}
	}
	for _, src := range names2 {
		for _, dst := range names2 {
			related := src == dst || strings.HasPrefix(dst, src) || strings.HasPrefix(src, dst) || strings.Contains(src, "/..") != strings.Contains(dst, "/..")
			if !related && !thorough && !r.Chance(10) {
				continue
			}
			for _, m := range []string{"COPY", "MOVE"} {
				for _, ow := range []string{"", "F"} {
					if ow == "F" && !thorough && !related {
						continue
					}
					d := (&url.URL{Path: dst}).String()
					line, out := sb.do(fsReq{method: m, path: src, dest: &d, ow: ow, fault: -1})
					o.Emit("fs.req", line, out)
					if sxTree(sb.listing()) != base2 {
						sb.reset(tree2)
					}
				}
			}
		}
		for _, depth := range []string{"0", "1", "infinity"} {
			line, out := sb.do(fsReq{method: "PROPFIND", path: src, depth: depth, pf: 'a', ctype: "application/xml", fault: -1})
			o.Emit("fs.req", line, out)
		}
		line, out := sb.do(fsReq{method: "GET", path: src, fault: -1})
		o.Emit("fs.req", line, out)
	}
	for _, p := range []string{"/n", "/m", "/n.tmp", "/new", "/docs/r", "/a/x", "/m.tmp/k"} {
		for _, body := range []string{"", "v2", "a longer replacement body"} {
			line, out := sb.do(fsReq{method: "PUT", path: p, body: body, fault: -1})
			o.Emit("fs.req", line, out)
			if sxTree(sb.listing()) != base2 {
				sb.reset(tree2)
			}
		}
		// the same uploads breaking off: nothing next to the target may be touched either
		for _, f := range []int{0, 1} {
			line, out := sb.do(fsReq{method: "PUT", path: p, body: "v2", fault: f})
			o.Emit("fs.req", line, out)
			if sxTree(sb.listing()) != base2 {
				sb.reset(tree2)
			}
		}
	}
	// files of the tree realised as symbolic links to another file of the tree (to the model: two files with the same
	// content): what GET, HEAD and PROPFIND announce for the link is what a conditional DELETE of the link is judged by
	treeL := []fsEntry{{path: "/", dir: true}, {path: "/t.txt", content: "target content"}, {path: "/d", dir: true}}
	mkLinks := func() {
		sb.reset(treeL)
		os.Symlink("t.txt", filepath.Join(sb.root, "l.txt"))
		os.Symlink("../t.txt", filepath.Join(sb.root, "d", "l2"))
	}
	for _, p := range []string{"/l.txt", "/d/l2"} {
		mkLinks()
		for _, rq := range []fsReq{{method: "GET", path: p, fault: -1}, {method: "HEAD", path: p, fault: -1}, {method: "PROPFIND", path: p, depth: "0", pf: 'a', ctype: "application/xml", fault: -1},
			{method: "PROPFIND", path: "/", depth: "infinity", pf: 'a', ctype: "application/xml", fault: -1}} {
			line, out := sb.do(rq)
			o.Emit("fs.req", line, out)
		}
		for _, c := range [][2]byte{{'u', 'u'}, {'c', 'u'}, {'o', 'u'}, {'s', 'u'}, {'u', 'c'}, {'u', 'o'}, {'u', 's'}, {'c', 'o'}} {
			mkLinks()
			line, out := sb.do(fsReq{method: "DELETE", path: p, ifm: c[0], ifnm: c[1], fault: -1})
			o.Emit("fs.req", line, out)
		}
	}
	// a collection nested deeper than any recursion limit one might think of, with something at the bottom: listed,
	// copied onto an existing collection and onto an existing file, moved, deleted
	{
		deep := []fsEntry{{path: "/", dir: true}, {path: "/dst", dir: true}, {path: "/dst/keep.txt", content: "precious"}, {path: "/note.txt", content: "n"}}
		pth := "/src"
		for i := 0; i < 40; i++ {
			deep = append(deep, fsEntry{path: pth, dir: true})
			pth += "/d"
		}
		deep = append(deep, fsEntry{path: pth, content: "bottom"})
		for _, rq := range []fsReq{{method: "PROPFIND", path: "/src", depth: "infinity", pf: 'a', ctype: "application/xml", fault: -1},
			{method: "COPY", path: "/src", dest: sp("/dst"), fault: -1}, {method: "COPY", path: "/src", dest: sp("/note.txt"), fault: -1},
			{method: "COPY", path: "/src", dest: sp("/fresh"), fault: -1}, {method: "COPY", path: "/src", dest: sp("/dst"), ow: "F", fault: -1},
			{method: "MOVE", path: "/src", dest: sp("/dst"), fault: -1}, {method: "MOVE", path: "/src/d/d", dest: sp("/up"), fault: -1},
			{method: "DELETE", path: "/src", fault: -1}, {method: "GET", path: pth, fault: -1}} {
			sb.reset(deep)
			line, out := sb.do(rq)
			o.Emit("fs.req", line, out)
		}
	}
	// a collection with more members than any listing limit one might think of
	{
		big := []fsEntry{{path: "/", dir: true}, {path: "/big", dir: true}}
		for i := 0; i < 1100; i++ {
			big = append(big, fsEntry{path: fmt.Sprintf("/big/f%04d", i), content: "x"})
		}
		sb.reset(big)
		for _, depth := range []string{"1", "infinity", ""} {
			line, out := sb.do(fsReq{method: "PROPFIND", path: "/big", depth: depth, pf: 'n', ctype: "application/xml", fault: -1})
			o.Emit("fs.req", line, out)
		}
	}
	// aliasing: what COPY / MOVE produce must be independent of the source afterwards (and the reverse)
	for _, hist := range [][]fsReq{
		{{method: "PUT", path: "/a", body: "one", fault: -1}, {method: "COPY", path: "/a", dest: sp("/b"), fault: -1}, {method: "PUT", path: "/a", body: "second version", fault: -1},
			{method: "GET", path: "/b", fault: -1}, {method: "PUT", path: "/b", body: "third", fault: -1}, {method: "GET", path: "/a", fault: -1}},
		{{method: "MKCOL", path: "/d", fault: -1}, {method: "PUT", path: "/d/f", body: "x", fault: -1}, {method: "COPY", path: "/d", dest: sp("/c"), fault: -1},
			{method: "PUT", path: "/d/f", body: "yy", fault: -1}, {method: "GET", path: "/c/f", fault: -1}, {method: "DELETE", path: "/d", fault: -1}, {method: "GET", path: "/c/f", fault: -1},
			{method: "PUT", path: "/c/f", body: "", fault: -1}},
		{{method: "PUT", path: "/a", body: "one", fault: -1}, {method: "MOVE", path: "/a", dest: sp("/b"), fault: -1}, {method: "PUT", path: "/a", body: "new", fault: -1},
			{method: "GET", path: "/b", fault: -1}, {method: "COPY", path: "/b", dest: sp("/a"), fault: -1}, {method: "PUT", path: "/b", body: "zz", fault: 1}, {method: "GET", path: "/a", fault: -1}},
	} {
		sb.reset([]fsEntry{{path: "/", dir: true}})
		for _, rq := range hist {
			line, out := sb.do(rq)
			o.Emit("fs.req", line, out)
		}
	}
	sb.reset(tree)
	// random histories over a larger universe
	nh := 150
	if thorough {
		nh = 4000
	}
	names := []string{"a", "b", "c d", "é", "x#y", "q?r", "%41", "w;v", ".h"}
	randPath := func() string {
		p := ""
		for i := r.Range(0, 4); i > 0; i-- {
			p += "/" + r.Pick(names)
		}
		if p == "" || r.Chance(5) {
			p += "/"
		}
		return p
	}
	for h := 0; h < nh; h++ {
		sb.reset([]fsEntry{{path: "/", dir: true}})
		for step := r.Range(1, 40); step > 0; step-- {
			rq := fsReq{path: randPath(), fault: -1, ifm: 'u', ifnm: 'u'}
			switch k := r.Intn(20); {
			case k < 5:
				rq.method = "PUT"
				rq.body = r.Pick([]string{"", "x", "hello world"})
				if r.Chance(4) {
					// larger than any buffer a copy loop is likely to use in one go
					rq.body = strings.Repeat("0123456789abcdef", 5000)
				}
				if r.Chance(10) {
					rq.fault = r.Intn(3)
				} else if r.Chance(8) {
					rq.cancelAt = 1 + r.Intn(len(rq.body)+1)
				}
				if r.Chance(20) {
					rq.ifm = "uscom"[r.Intn(5)]
					rq.ifnm = "uscom"[r.Intn(5)]
				}
			case k < 9:
				rq.method = "MKCOL"
			case k < 11:
				rq.method = "DELETE"
				if r.Chance(20) {
					rq.ifm = "uscom"[r.Intn(5)]
				}
			case k < 15:
				rq.method = r.Pick([]string{"COPY", "MOVE"})
				d := (&url.URL{Path: randPath()}).String()
				rq.dest = &d
				rq.depth = r.Pick([]string{"", "", "infinity", "0"})
				rq.ow = r.Pick([]string{"", "T", "F"})
			case k < 17:
				rq.method = "PROPFIND"
				rq.depth = r.Pick([]string{"", "0", "1", "infinity"})
			case k < 18:
				rq.method = "GET"
			case k < 19:
				rq.method = "OPTIONS"
			default:
				rq.method = "HEAD"
			}
			line, out := sb.do(rq)
			o.Emit("fs.req", line, out)
		}
	}
}

func init() { families["fsreq"] = famFsReq }

// ---- fs.obs: served directories holding what WebDAV cannot create and the tree model cannot express (symbolic links
// to collections, to files, dangling, with absolute targets; a served directory that is itself reached through a
// link; a file outside the root at the very host path a request path spells).  The model abstains on these; what is
// judged is what the properties say of EVERY response and EVERY request whatever the tree: no host path in a response
// (C17), nothing outside the root touched (C03), nothing outside the root READ in a way that shows (C03: the answer
// to a request may not depend on what lies outside the root).
func emitFsObs(o *Out) {
	type scen struct {
		name     string
		spelling int
		viaLink  bool // the handler is configured with a symbolic link to the served directory
		build    func(sb *sandbox)
	}
	build := func(sb *sandbox) {
		sb.reset([]fsEntry{{path: "/", dir: true}, {path: "/d", dir: true}, {path: "/d/f", content: "in d"}, {path: "/t.txt", content: "target"},
			{path: "/z.txt", content: "zz"}, {path: "/noext", content: "plain words"}})
		os.Symlink("d", filepath.Join(sb.root, "ld"))                                // link to a collection
		os.Symlink("t.txt", filepath.Join(sb.root, "lf"))                            // link to a file
		os.Symlink("missing", filepath.Join(sb.root, "dangling"))                    // dangling link
		os.Symlink(filepath.Join(sb.root, "d"), filepath.Join(sb.root, "labs"))      // absolute target inside the root
		os.Symlink(filepath.Join(sb.root, "t.txt"), filepath.Join(sb.root, "lfabs")) // absolute target, a file
	}
	for _, sc := range []scen{{"links", 0, false, build}, {"links-relroot", 5, false, build}, {"links-root-via-link", 0, true, build}} {
		sb := newSandbox(sc.spelling)
		sc.build(sb)
		alias := sb.base + "-alias" // next to the sandbox (a DELETE of "/" removes the link itself: recreated per request)
		if sc.viaLink {
			os.Symlink(sb.root, alias)
			sb.h = &webdav.Handler{FileSystem: webdav.LocalFileSystem(alias)}
		}
		sb.canary = sb.outside()
		paths := []string{"/", "/ld", "/ld/", "/ld/f", "/lf", "/dangling", "/labs", "/labs/f", "/lfabs", "/d", "/z.txt", "/d/..", "/./"}
		var reqs []fsReq
		for _, p := range paths {
			for _, m := range []string{"GET", "HEAD", "OPTIONS", "DELETE", "MKCOL"} {
				reqs = append(reqs, fsReq{method: m, path: p, fault: -1})
			}
			reqs = append(reqs, fsReq{method: "PUT", path: p, body: "new", fault: -1}, fsReq{method: "PUT", path: p, body: "new", ifm: 'c', fault: -1})
			for _, d := range []string{"0", "1", "infinity"} {
				reqs = append(reqs, fsReq{method: "PROPFIND", path: p, depth: d, pf: 'a', ctype: "application/xml", fault: -1})
			}
			for _, m := range []string{"COPY", "MOVE"} {
				for _, dst := range []string{"/cp", "/d/cp", "/ld/cp", "/lf", "/z.txt", "/nope/cp"} {
					reqs = append(reqs, fsReq{method: m, path: p, dest: sp(dst), fault: -1})
				}
				reqs = append(reqs, fsReq{method: m, path: "/z.txt", dest: sp(p), fault: -1}, fsReq{method: m, path: "/d", dest: sp(p), ow: "F", fault: -1})
			}
		}
		for _, rq := range reqs {
			sc.build(sb)
			if sc.viaLink {
				os.Remove(alias)
				os.Symlink(sb.root, alias)
			}
			_, out := sb.do(rq)
			f := strings.Fields(out)
			dst := "-"
			if rq.dest != nil {
				dst = hx(*rq.dest)
			}
			// status, leak flag, canary flag are the first, the last but one and the last token of an fs.req answer
			o.Stat("fsobs." + sc.name)
			scope := "0"
			if rq.method == "PROPFIND" && f[0] == "207" && !sb.listingComplete(rq) {
				scope = "1"
			}
			o.Emit("fs.obs", sc.name+" "+rq.method+" "+hx(rq.path)+" "+dst+" "+sx(rq.depth+"-", rq.ow+"-"), f[0]+" "+f[len(f)-2]+" "+f[len(f)-1]+" "+scope)
		}
		os.Remove(alias)
		sb.close()
	}
	// a file OUTSIDE the root at exactly the host path a request path spells: what the server answers for the resource
	// inside the root may not depend on it (content, type, length, tag flag, listing)
	{
		sb := newSandbox(0)
		outer := filepath.Join(sb.base, "outer")
		inner := outer // the request path that, read as a host path, names the outer file
		mk := func(withOuter bool, outerContent []byte) {
			sb.reset([]fsEntry{{path: "/", dir: true}})
			os.MkdirAll(filepath.Join(sb.root, filepath.Dir(inner)), 0755)
			os.WriteFile(filepath.Join(sb.root, inner), []byte("plain words inside"), 0644)
			os.Remove(outer)
			if withOuter {
				os.WriteFile(outer, outerContent, 0644)
			}
		}
		png := []byte("\x89PNG\r\n\x1a\n\x00\x00\x00\rIHDR")
		for _, rq := range []fsReq{{method: "GET", path: inner, fault: -1}, {method: "HEAD", path: inner, fault: -1},
			{method: "PROPFIND", path: inner, depth: "0", pf: 'a', ctype: "application/xml", fault: -1},
			{method: "PROPFIND", path: filepath.Dir(inner), depth: "1", pf: 'a', ctype: "application/xml", fault: -1}} {
			answers := map[string]bool{}
			for _, v := range []struct {
				with bool
				c    []byte
			}{{false, nil}, {true, png}, {true, []byte("<html><body>x</body></html>")}} {
				mk(v.with, v.c)
				answers[sb.raw(rq)] = true
			}
			dep := "0"
			if len(answers) != 1 {
				dep = "1"
				if os.Getenv("VERIF_DEBUG") != "" {
					for a := range answers {
						fmt.Fprintln(os.Stderr, "OUTER-ANSWER", rq.method, a)
					}
				}
			}
			o.Stat("fsobs.outer")
			o.Emit("fs.obs", "outer "+rq.method+" "+hx("/<host path of a file outside>")+" - "+sx(rq.depth+"-", "-"), "200 0 "+dep+" 0")
		}
		os.Remove(outer)
		sb.close()
	}
}

// the raw answer to a request (status, the entity headers that describe the resource, body) with clock-dependent
// parts removed
func (sb *sandbox) raw(rq fsReq) string {
	req := httptest.NewRequest(rq.method, "http://example.com"+(&url.URL{Path: rq.path}).EscapedPath(), strings.NewReader(rq.body))
	if rq.depth != "" {
		req.Header.Set("Depth", rq.depth)
	}
	if rq.ctype != "" {
		req.Header.Set("Content-Type", rq.ctype)
		req.Body = io.NopCloser(strings.NewReader(pfBodies[rq.pf]))
	}
	rec := httptest.NewRecorder()
	func() {
		defer func() { recover() }()
		sb.h.ServeHTTP(rec, req)
	}()
	body := regexp.MustCompile(`<getlastmodified[^>]*>[^<]*</getlastmodified>|<getetag[^>]*>[^<]*</getetag>`).ReplaceAllString(rec.Body.String(), "")
	// properties come out of a Go map: order-insensitive comparison of the pieces
	pieces := strings.Split(body, "<")
	sort.Strings(pieces)
	if rec.Code != 207 {
		pieces = []string{body}
	}
	return fmt.Sprint(rec.Code, rec.Header().Get("Content-Type"), "|", len(body), "|", strings.Join(pieces, "<"))
}

// whether a 207 answer to a PROPFIND on a directory of the served tree lists the directory itself and exactly its
// direct entries (Depth 1) or everything below it (Depth infinity; links are entries, they are not followed), each once
func (sb *sandbox) listingComplete(rq fsReq) bool {
	hp, err := webdavLocal(sb.root, rq.path)
	if err != nil {
		return true
	}
	// (a collection addressed through a link is the directory the link names, as for GET, Stat and Depth 0)
	if st, err := os.Stat(hp); err != nil || !st.IsDir() || rq.depth == "0" {
		return true
	}
	if st, err := os.Lstat(hp); err == nil && st.Mode()&os.ModeSymlink != 0 {
		hp += string(filepath.Separator)
	}
	want := map[string]int{}
	if rq.depth == "1" {
		want[filepath.Clean(hp)] = 1
		es, _ := os.ReadDir(hp)
		for _, e := range es {
			want[filepath.Join(hp, e.Name())] = 1
		}
	} else {
		filepath.Walk(hp, func(p string, fi os.FileInfo, err error) error {
			if err == nil {
				want[filepath.Clean(p)] = 1
			}
			return nil
		})
	}
	req := httptest.NewRequest("PROPFIND", "http://example.com"+(&url.URL{Path: rq.path}).EscapedPath(), nil)
	req.Header.Set("Depth", rq.depth)
	rec := httptest.NewRecorder()
	func() {
		defer func() { recover() }()
		sb.h.ServeHTTP(rec, req)
	}()
	var doc msDoc
	if xml.Unmarshal(rec.Body.Bytes(), &doc) != nil {
		return false
	}
	got := map[string]int{}
	for _, r := range doc.Responses {
		for _, h := range r.Hrefs {
			u, err := url.Parse(h)
			if err != nil {
				return false
			}
			lp, err := webdavLocal(sb.root, u.Path)
			if err != nil {
				return false
			}
			got[filepath.Clean(lp)]++
		}
	}
	if len(got) != len(want) {
		return false
	}
	for k := range want {
		if got[k] != 1 {
			return false
		}
	}
	return true
}
