package main

import (
	"bufio"
	"context"
	"encoding/hex"
	"errors"
	"fmt"
	"github.com/emersion/go-webdav/internal"
	"net/url"
	"os"
	"strings"
)

// ---- deterministic PRNG (splitmix64): every random choice derives from VERIF_SEED ----

type RNG struct{ s uint64 }

func NewRNG(seed uint64) *RNG { return &RNG{s: seed*0x9E3779B97F4A7C15 + 0x1234567} }

func (r *RNG) Next() uint64 {
	r.s += 0x9E3779B97F4A7C15
	z := r.s
	z = (z ^ (z >> 30)) * 0xBF58476D1CE4E5B9
	z = (z ^ (z >> 27)) * 0x94D049BB133111EB
	return z ^ (z >> 31)
}
func (r *RNG) Intn(n int) int {
	if n <= 0 {
		return 0
	}
	return int(r.Next() % uint64(n))
}
func (r *RNG) Bool() bool             { return r.Next()&1 == 1 }
func (r *RNG) Chance(p int) bool      { return r.Intn(100) < p }
func (r *RNG) Pick(l []string) string { return l[r.Intn(len(l))] }
func (r *RNG) Range(lo, hi int) int   { return lo + r.Intn(hi-lo+1) }

// ---- protocol encoding ----

func hx(s string) string {
	if s == "" {
		return "-"
	}
	return hex.EncodeToString([]byte(s))
}
func b01(b bool) string {
	if b {
		return "1"
	}
	return "0"
}
func sx(items ...string) string { return "( " + strings.Join(items, " ") + " )" }
func sxl(items []string) string {
	if len(items) == 0 {
		return "( )"
	}
	return "( " + strings.Join(items, " ") + " )"
}

// ---- output ----

type Out struct {
	w     *bufio.Writer
	n     int
	stats map[string]int
}

func NewOut() *Out { return &Out{w: bufio.NewWriterSize(os.Stdout, 1<<20), stats: map[string]int{}} }

// Emit writes one protocol line: "op args => go-output".
func (o *Out) Emit(op string, args string, goOut string) {
	fmt.Fprintf(o.w, "%s %s => %s\n", op, args, goOut)
	o.n++
}
func (o *Out) Stat(k string) { o.stats[k]++ }
func (o *Out) Close() {
	o.w.Flush()
	// branch/distribution statistics go to stderr as "STAT key n" lines
	for k, v := range o.stats {
		fmt.Fprintf(os.Stderr, "STAT %s %d\n", k, v)
	}
}

// safely runs f, mapping a panic to a marker string
func guard(f func() string) (res string) {
	defer func() {
		if r := recover(); r != nil {
			res = "panic"
		}
	}()
	return f()
}

func itoa(n int) string { return fmt.Sprintf("%d", n) }

var bgCtx = context.Background()

func (r *RNG) Pick2(vals ...int) int { return vals[r.Intn(len(vals))] }

func asHTTP(err error, target **internal.HTTPError) bool { return errors.As(err, target) }

func unhxString(h string) (string, error) {
	if h == "-" {
		return "", nil
	}
	b, err := hex.DecodeString(h)
	return string(b), err
}

// spellings of "this body is XML in UTF-8" (RFC 7231 §3.1.1.1: type, subtype, parameter names and the charset value
// are case-insensitive; the parameter is optional; RFC 7303: application/xml and text/xml)
var xmlCTSpellings = []string{"application/xml; charset=utf-8", "application/xml", "text/xml", "application/xml; charset=UTF-8", "text/xml; charset=\"UTF-8\"",
	"Application/XML; Charset=Utf-8", "application/xml;charset=utf-8", "text/xml; charset=utf-8", "application/xml; charset=\"utf-8\""}

func xmlCTSpelling(k int) string { return xmlCTSpellings[k%len(xmlCTSpellings)] }

// spellings of one path as an href that denote the same path (RFC 3986 §6.2.2: hex digits of either case, unreserved
// characters escaped or not; an absolute URI instead of a path; never an escaped slash, which is not equivalent)
var hrefSpellCounter int

func hrefSpelling(p string) string { return hrefSpellingX(p, true) }

// (the request-side model of hrefs covers path-only references: multiget documents sent to the servers do not use the
// absolute-URI spelling)
func hrefSpellingPath(p string) string { return hrefSpellingX(p, false) }

func hrefSpellingX(p string, abs bool) string {
	canon := (&url.URL{Path: p}).String()
	hrefSpellCounter++
	if !abs && hrefSpellCounter%6 == 3 {
		hrefSpellCounter++
	}
	switch hrefSpellCounter % 6 {
	case 1: // lower-case hex digits
		var b strings.Builder
		for i := 0; i < len(canon); i++ {
			if canon[i] == '%' && i+2 < len(canon) {
				b.WriteString(strings.ToLower(canon[i : i+3]))
				i += 2
			} else {
				b.WriteByte(canon[i])
			}
		}
		return b.String()
	case 2: // characters escaped that need not be
		var b strings.Builder
		for i := 0; i < len(p); i++ {
			c := p[i]
			switch {
			case c == '/':
				b.WriteByte(c)
			case c == '@' || c == '~' || c == '-' || c == '.' || c == '_' || c == '+' || c == '!' || (c >= '0' && c <= '9'):
				fmt.Fprintf(&b, "%%%02X", c)
			case c >= 'a' && c <= 'z' || c >= 'A' && c <= 'Z':
				b.WriteByte(c)
			default:
				fmt.Fprintf(&b, "%%%02X", c)
			}
		}
		return b.String()
	case 3:
		return "http://example.com" + canon
	case 4: // every byte but the slashes escaped
		var b strings.Builder
		for i := 0; i < len(p); i++ {
			if p[i] == '/' {
				b.WriteByte('/')
			} else {
				fmt.Fprintf(&b, "%%%02x", p[i])
			}
		}
		return b.String()
	}
	return canon
}
