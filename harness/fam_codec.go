package main

import (
	"encoding/hex"
	"fmt"
	webdav "github.com/emersion/go-webdav"
	"net/http"
	"net/http/httptest"
	"strconv"
	"strings"
	"time"
	"unicode/utf8"

	"github.com/emersion/go-webdav/caldav"
	"github.com/emersion/go-webdav/carddav"
	"github.com/emersion/go-webdav/internal"
)

// C16: wire primitives

func hxb(b []byte) string {
	if len(b) == 0 {
		return "-"
	}
	return hex.EncodeToString(b)
}

// decoded view of a Go string, as `for _, r := range s` sees it
func sxRunes(s string, withPrint bool) string {
	var items []string
	for len(s) > 0 {
		r, w := utf8.DecodeRuneInString(s)
		if r == utf8.RuneError && w == 1 {
			items = append(items, sx("b", fmt.Sprint(s[0])))
		} else {
			items = append(items, sx("v", fmt.Sprint(int(r)), b01(withPrint && strconv.IsPrint(r))))
		}
		s = s[w:]
	}
	return sxl(items)
}

func emitDepth(o *Out, s string) {
	res := guard(func() string {
		d, err := internal.ParseDepth(s)
		if err != nil {
			return "err"
		}
		return fmt.Sprintf("ok %d", int(d))
	})
	o.Emit("depth.parse", hx(s), res)
}

func emitEtag(o *Out, s string) {
	enc := guard(func() string { return hx(internal.ETag(s).String()) })
	o.Emit("etag.enc", sxRunes(s, true), enc)
	rt := guard(func() string {
		b, err := internal.ETag(s).MarshalText()
		if err != nil {
			return "err"
		}
		var e internal.ETag
		if err := e.UnmarshalText(b); err != nil {
			return "err"
		}
		return "ok " + hx(string(e))
	})
	o.Emit("etag.rt", sxRunes(s, true), rt)
	// through headers: the announced form of a tag, sent back in If-Match / If-None-Match, names that tag again
	hdr := guard(func() string {
		// (what the file server really sends for a backend holding this tag: PUT and GET must announce one form)
		announced := internal.ETag(s).String()
		fs := newMemFS()
		fs.putTag = s
		h := &webdav.Handler{FileSystem: fs}
		var sent []string
		for _, m := range []string{"PUT", "GET"} {
			req := httptest.NewRequest(m, "http://example.com/f.txt", strings.NewReader("data"))
			rec := httptest.NewRecorder()
			h.ServeHTTP(rec, req)
			if rec.Code/100 == 2 {
				sent = append(sent, rec.Header().Get("ETag"))
			}
		}
		if len(sent) == 2 && s != "" { // (the synthetic file system reads an empty tag as "pick one yourself")
			if sent[0] != sent[1] {
				return "put-and-get-announce-different-forms"
			}
			announced = sent[0]
		}
		got, err := webdav.ConditionalMatch(announced).ETag()
		if err != nil {
			return "err"
		}
		m, err := webdav.ConditionalMatch(announced).MatchETag(s)
		if err != nil {
			return "ok " + hx(got) + " match-err"
		}
		return "ok " + hx(got) + " " + b01(m)
	})
	o.Emit("etag.hdr", sxRunes(s, true), hdr)
}

func emitEtagDec(o *Out, s string) {
	res := guard(func() string {
		var e internal.ETag
		if err := e.UnmarshalText([]byte(s)); err != nil {
			return "err"
		}
		return "ok " + hx(string(e))
	})
	o.Stat("etagdec." + strings.Fields(res)[0])
	o.Emit("etag.dec", sxRunes(s, false), res)
}

func emitStatus(o *Out, code int, text string) {
	st := http.StatusText(code)
	s := &internal.Status{Code: code, Text: text}
	enc := guard(func() string { b, _ := s.MarshalText(); return hxb(b) })
	o.Emit("status.enc", fmt.Sprintf("%d %s %s", code, hx(text), hx(st)), enc)
	rt := guard(func() string {
		b, err := s.MarshalText()
		if err != nil {
			return "err"
		}
		var d internal.Status
		if err := d.UnmarshalText(b); err != nil {
			return "err"
		}
		return fmt.Sprintf("ok %d %s", d.Code, hx(d.Text))
	})
	o.Emit("status.rt", fmt.Sprintf("%d %s %s", code, hx(text), hx(st)), rt)
}

func emitStatusDec(o *Out, s string) {
	res := guard(func() string {
		var d internal.Status
		if err := d.UnmarshalText([]byte(s)); err != nil {
			return "err"
		}
		return fmt.Sprintf("ok %d %s", d.Code, hx(d.Text))
	})
	o.Stat("statusdec." + strings.Fields(res)[0])
	o.Emit("status.dec", hx(s), res)
}

func emitHref(o *Out, p string) {
	h := internal.Href{Path: p}
	o.Emit("href.enc", hx(p), guard(func() string { return hx(h.String()) }))
	o.Emit("href.rt", hx(p), guard(func() string {
		b, err := h.MarshalText()
		if err != nil {
			return "err"
		}
		var d internal.Href
		if err := d.UnmarshalText(b); err != nil {
			return "err"
		}
		return "ok " + hx(d.Path)
	}))
}

func emitHrefDec(o *Out, s string) {
	res := guard(func() string {
		var d internal.Href
		if err := d.UnmarshalText([]byte(s)); err != nil {
			return "err"
		}
		return "ok " + hx(d.Path)
	})
	o.Stat("hrefdec." + strings.Fields(res)[0])
	o.Emit("href.dec", hx(s), res)
}

func emitDate(o *Out, unix int64, off int) {
	loc := time.UTC
	if off != 0 {
		loc = time.FixedZone("x", off)
	}
	t := time.Unix(unix, 0).In(loc)
	it := internal.Time(t)
	args := fmt.Sprintf("%d %d", unix, off)
	o.Emit("httpdate.enc", args, guard(func() string { b, _ := it.MarshalText(); return hxb(b) }))
	o.Emit("httpdate.rt", args, guard(func() string {
		b, err := it.MarshalText()
		if err != nil {
			return "err"
		}
		var d internal.Time
		if err := d.UnmarshalText(b); err != nil {
			return "err"
		}
		return fmt.Sprintf("ok %d", time.Time(d).Unix())
	}))
	o.Emit("caldate.enc", args, guard(func() string { s, _ := caldav.VerifDateMarshal(t); return hx(s) }))
	o.Emit("caldate.rt", args, guard(func() string {
		s, err := caldav.VerifDateMarshal(t)
		if err != nil {
			return "err"
		}
		d, err := caldav.VerifDateUnmarshal(s)
		if err != nil {
			return "err"
		}
		return fmt.Sprintf("ok %d", d.Unix())
	}))
}

func emitDateDec(o *Out, s string) {
	o.Emit("httpdate.dec", hx(s), guard(func() string {
		var d internal.Time
		if err := d.UnmarshalText([]byte(s)); err != nil {
			return "err"
		}
		return fmt.Sprintf("ok %d", time.Time(d).Unix())
	}))
	o.Emit("caldate.dec", hx(s), guard(func() string {
		d, err := caldav.VerifDateUnmarshal(s)
		if err != nil {
			return "err"
		}
		return fmt.Sprintf("ok %d", d.Unix())
	}))
}

var tagAlphabet = []string{",", ";", "=", "*", "W/", "a", "b", "\"", "\\", " ", "\n", "\t", "\r", "\x00", "\x07", "\x08", "\x0b", "\x0c", "\x1f", "\x7f", "é", "\u00a0", "\u2028", "世", "\U0001F600", "\U000E0001", "\xff", "\xc3", "\xed\xa0\x80", "\uFFFD", "'", "`", "%", "x"}

func randFrom(r *RNG, alpha []string, maxLen int) string {
	var b strings.Builder
	for i := r.Range(0, maxLen); i > 0; i-- {
		b.WriteString(r.Pick(alpha))
	}
	return b.String()
}

func famCodec(o *Out, r *RNG, thorough bool) {
	// Depth / Overwrite: exhaustive + near misses
	for _, s := range []string{"0", "1", "infinity", "", "2", "-1", "Infinity", "INFINITY", " 0", "0 ", "00", "01", "inf", "infinity ", "1,noroot", "0\n", "T", "F"} {
		emitDepth(o, s)
	}
	for _, d := range []int{0, 1, -1, 2, -2, 7} {
		o.Emit("depth.str", fmt.Sprint(d), guard(func() string { return "ok " + hx(internal.Depth(d).String()) }))
	}
	for _, s := range []string{"T", "F", "", "t", "f", "TRUE", "true", "1", "0", " T", "T ", "TF", "yes"} {
		o.Emit("ow.parse", hx(s), guard(func() string {
			b, err := internal.ParseOverwrite(s)
			if err != nil {
				return "err"
			}
			return "ok " + b01(b)
		}))
	}
	for _, b := range []bool{true, false} {
		o.Emit("ow.fmt", b01(b), hx(internal.FormatOverwrite(b)))
	}
	// enumerations of the query grammars
	for _, s := range []string{"yes", "no", "", "Yes", "NO", "true", "y", "yes ", "1"} {
		o.Emit("enum.parse", "caldav-neg "+hx(s), guard(func() string {
			b, err := caldav.VerifNegateUnmarshal(s)
			if err != nil {
				return "err"
			}
			return "ok " + b01(b)
		}))
		o.Emit("enum.parse", "carddav-neg "+hx(s), guard(func() string {
			b, err := carddav.VerifNegateUnmarshal(s)
			if err != nil {
				return "err"
			}
			return "ok " + b01(b)
		}))
	}
	for _, s := range []string{"anyof", "allof", "", "AnyOf", "any", "oneof", "allof ", "equals"} {
		o.Emit("enum.parse", "ftest "+hx(s), guard(func() string {
			if carddav.VerifFilterTestUnmarshal(s) != nil {
				return "err"
			}
			return "ok"
		}))
	}
	for _, s := range []string{"equals", "contains", "starts-with", "ends-with", "", "Equals", "startswith", "starts_with", "regex", "anyof"} {
		o.Emit("enum.parse", "mtype "+hx(s), guard(func() string {
			if carddav.VerifMatchTypeUnmarshal(s) != nil {
				return "err"
			}
			return "ok"
		}))
	}
	// Status: every code 100..999 (and a few outside) x phrases
	phrases := []string{"", "OK", "Not Found", " leading", "trailing ", "two  spaces", "é世", "a\tb"}
	for c := 100; c <= 999; c++ {
		emitStatus(o, c, "")
		if thorough || c%7 == 0 {
			emitStatus(o, c, phrases[c%len(phrases)])
		}
	}
	for _, c := range []int{0, 1, 99, 1000, 65536, -1, -200, 1 << 40} {
		for _, p := range phrases {
			emitStatus(o, c, p)
		}
	}
	for _, s := range []string{"", "HTTP/1.1 200 OK", "HTTP/1.1 200", "HTTP/1.1 200 ", "HTTP/1.1  200 OK", "200 OK", "HTTP/1.1 +200 OK", "HTTP/1.1 -200 OK",
		"HTTP/1.1 2x0 OK", "HTTP/1.1 0200 OK", "HTTP/1.1 99999999999999999999 OK", "HTTP/1.1 9223372036854775807 x", "HTTP/1.1 9223372036854775808 x", "HTTP/1.1 -9223372036854775808 x", "HTTP/1.1 -9223372036854775809 x",
		"HTTP/1.1 2_00 OK", "HTTP/1.1 0x10 OK", "HTTP/1.1 ٢٠٠ OK", " HTTP/1.1 200 OK", "HTTP/1.1\t200\tOK", "HTTP/1.1 200 OK extra words", "x y z", "  ", " ", "a b", "HTTP/1.1 + OK", "HTTP/1.1 - OK", "HTTP/1.1 200\nOK x"} {
		emitStatusDec(o, s)
	}
	// ETag
	for _, a := range tagAlphabet {
		emitEtag(o, a)
		for _, b := range tagAlphabet {
			emitEtag(o, a+b)
		}
	}
	n := 3000
	if thorough {
		n = 100000
	}
	for i := 0; i < n; i++ {
		emitEtag(o, randFrom(r, tagAlphabet, 8))
	}
	// all code points: printability-dependent escaping (sampled in quick, exhaustive in thorough)
	step := 257
	if thorough {
		step = 1
	}
	for cp := 0; cp <= 0x10FFFF; cp += step {
		if cp >= 0xD800 && cp <= 0xDFFF {
			continue
		}
		emitEtag(o, string(rune(cp)))
	}
	decAlpha := []string{"\"", "\\", "a", "n", "x", "u", "U", "0", "1", "7", "8", "f", "F", "g", "'", "`", "\n", " ", "é", "\xff", "4", "3"}
	for _, s := range []string{"", "\"", "\"\"", "\"a\"", "a", "'a'", "`a`", "'ab'", "`a\"b`", "\"a", "a\"", "\"a\"b\"", "\"a\\\"", "\"\\x4\"", "\"\\x41\"", "\"\\u00e9\"", "\"\\ud800\"", "\"\\U0001F600\"", "\"\\U00110000\"",
		"\"\\101\"", "\"\\400\"", "\"\\18\"", "\"\\'\"", "\"\\\"\"", "\"a\nb\"", "\"\\\n\"", "\"\\q\"", "\"\xff\"", "\"é\"", "W/\"a\"", "W/", "W", "W/\"", "w/\"a\"", "W/W/\"a\"", " \"a\"", "\"a\" ", "\"\\a\\b\\f\\n\\r\\t\\v\"", "'\\''", "'\"'", "`\\`", "``", "''"} {
		emitEtagDec(o, s)
	}
	for i := 0; i < n; i++ {
		body := randFrom(r, decAlpha, 7)
		switch r.Intn(6) {
		case 0:
			emitEtagDec(o, body)
		case 1:
			emitEtagDec(o, "'"+body+"'")
		case 2:
			emitEtagDec(o, "`"+body+"`")
		default:
			emitEtagDec(o, "\""+body+"\"")
		}
	}
	// Href
	segAlpha := []string{"a", "b", " ", "%", "#", "?", ";", "+", "&", "=", ":", "@", "$", ",", "~", "é", "世", "\"", "<", ">", "\\", "\x00", "\x1f", "\x7f", "\xff", ".", "..", "%2F", "%41", "*", "!", "'", "(", ")", "[", "]", "^", "|", "{", "}", "`"}
	for _, a := range segAlpha {
		emitHref(o, "/"+a)
		emitHref(o, "/x/"+a+"/")
		for _, b := range segAlpha {
			emitHref(o, "/"+a+b)
		}
	}
	for _, p := range []string{"/", "//", "//x/y", "/a//b", "", "a", "a/b", "a:b", "./a:b", "/a/", "///x"} {
		emitHref(o, p)
	}
	for i := 0; i < n; i++ {
		p := "/"
		for j := r.Range(0, 4); j > 0; j-- {
			p += randFrom(r, segAlpha, 3)
			if r.Chance(70) {
				p += "/"
			}
		}
		emitHref(o, p)
	}
	for _, s := range []string{"", "/", "/a", "/a%20b", "/a%2", "/a%zz", "/a%", "%41", "/a?q", "/a?q#f", "/a#f", "/a?", "?", "#", "a:b", "./a:b", "a/b:c", "http://h/p", "//h/p", "///p", "/a b", "/a\x00", "/a\x7f", "/a\tb", "*", "/é", "/%C3%A9", "/%c3%a9", "1a:b", "+a:b", "a+b:c", ":a", "/:a", "a", "a/b", "../a", "/a/../b", "mailto:x", "/a%2Fb", "/a%25b", "http://[::1]/p", "http://h:x/p", "/\xff"} {
		emitHrefDec(o, s)
	}
	hd := []string{"/", "a", "%", "2", "F", "4", "1", "?", "#", ":", " ", "é", "z", "\x00"}
	for i := 0; i < n; i++ {
		emitHrefDec(o, randFrom(r, hd, 7))
	}
	// dates: instants across the whole range, every month boundary of sample years, leap days, zones
	offs := []int{0, 3600, -3600, 5*3600 + 1800, -12 * 3600, 14 * 3600, 1}
	var instants []int64
	for _, y := range []int{0, 1, 4, 100, 400, 1582, 1600, 1700, 1899, 1900, 1969, 1970, 1999, 2000, 2001, 2023, 2024, 2038, 2100, 2400, 9999} {
		for m := 1; m <= 12; m++ {
			first := time.Date(y, time.Month(m), 1, 0, 0, 0, 0, time.UTC)
			instants = append(instants, first.Unix(), first.Unix()-1, first.Add(36*time.Hour+59*time.Minute+59*time.Second).Unix())
		}
		instants = append(instants, time.Date(y, 2, 29, 12, 0, 0, 0, time.UTC).Unix(), time.Date(y, 12, 31, 23, 59, 59, 0, time.UTC).Unix())
	}
	instants = append(instants, -62162035200, -62162035201, 253402300799, 253402300800, 0, -1, -62135596800)
	for _, u := range instants {
		for i, off := range offs {
			if !thorough && i > 2 && u%3 != 0 {
				continue
			}
			emitDate(o, u, off)
		}
	}
	for i := 0; i < n; i++ {
		u := int64(r.Next()%315569520000) - 62162035200
		emitDate(o, u, offs[r.Intn(len(offs))])
	}
	good := "Sun, 10 Mar 2024 01:00:00 GMT"
	for _, s := range []string{good, "", "Sun, 10 Mar 2024 01:00:00 UTC", "Sun, 10 Mar 2024 1:00:00 GMT", "sun, 10 mar 2024 01:00:00 GMT", "Sun, 30 Feb 2024 01:00:00 GMT", "Sun, 29 Feb 2023 01:00:00 GMT", "Sun, 29 Feb 2024 01:00:00 GMT",
		"Sun, 10 Mar 2024 24:00:00 GMT", "Sun, 10 Mar 2024 01:60:00 GMT", "Sun, 10 Mar 2024 01:00:60 GMT", "Xxx, 10 Mar 2024 01:00:00 GMT", "Sun, 10 Xxx 2024 01:00:00 GMT", "Sun, 00 Mar 2024 01:00:00 GMT", "Sun, 31 Apr 2024 01:00:00 GMT",
		"Sun, 10 Mar 2024 01:00:00 GMT ", " " + good, "Sun,10 Mar 2024 01:00:00 GMT", "Sun, 10 Mar 24 01:00:00 GMT", "Sunday, 10-Mar-24 01:00:00 GMT", "Sun Mar 10 01:00:00 2024", "Sun, 10 Mar 2024 01:00:00.5 GMT", "Sun, 10 Mar 2024 01:00:00",
		"20240310T010000Z", "20240310T010000", "20240310T010000z", "2024-03-10T01:00:00Z", "20240230T010000Z", "20240310T250000Z", "20240310T010000.5Z", "20240310T0100Z", "00000301T000000Z", "99991231T235959Z", "20240310 010000Z", "20240310T010000Z ", "٢٠٢٤0310T010000Z",
		// a numeric zone offset where the grammar has the letter Z (RFC 5545 form 2 is UTC only), zone names, doubled or lower-case designators
		"20240310T010000+0100", "20240310T010000-0800", "20240310T010000+0000", "20240310T010000-0000", "20240310T010000+01:00", "20240310T010000+01", "20240310T010000ZZ",
		"20240310T010000UTC", "20240310T010000GMT", "20240310T010000 Z", "20240310T010000Z+0100", "20240310t010000Z", "20240310T010000+0100Z",
		"Sun, 10 Mar 2024 01:00:00 +0000", "Sun, 10 Mar 2024 01:00:00 UTC", "Sun, 10 Mar 2024 01:00:00 +0100", "Sun, 10 Mar 2024 01:00:00 Z", "Sun, 10 Mar 2024 01:00:00 gmt"} {
		emitDateDec(o, s)
	}
	for i := 0; i < n/4; i++ {
		b := []byte(good)
		if r.Bool() {
			b = []byte("20240310T010000Z")
		}
		for k := r.Range(1, 2); k > 0; k-- {
			b[r.Intn(len(b))] = "0123456789 :,TZGMSunar"[r.Intn(22)]
		}
		emitDateDec(o, string(b))
	}
}

func init() { families["codec"] = famCodec }
