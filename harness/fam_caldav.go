package main

import (
	"fmt"
	"reflect"
	"strconv"
	"strings"
	"time"

	"github.com/emersion/go-ical"
	"github.com/emersion/go-webdav/caldav"
)

// C06: caldav.Match / caldav.Filter

type gProp struct {
	name, value string
	params      [][]string // name, values...
}
type gRec struct {
	first, step int64
	count       int
}
type gComp struct {
	name     string
	props    []gProp
	children []*gComp
	rec      *gRec // what the generator knows about the RRULE it wrote (bounded family)
}

const zeroUnix = -62135596800

func unixOrZero(t time.Time) int64 {
	if t.IsZero() {
		return zeroUnix
	}
	return t.Unix()
}

func buildComp(g *gComp) *ical.Component {
	c := &ical.Component{Name: g.name, Props: make(ical.Props)}
	for _, p := range g.props {
		ip := ical.Prop{Name: p.name, Params: make(ical.Params), Value: p.value}
		for _, kv := range p.params {
			ip.Params[kv[0]] = append(ip.Params[kv[0]], kv[1:]...)
			if len(kv) == 1 {
				ip.Params[kv[0]] = nil
			}
		}
		c.Props[p.name] = append(c.Props[p.name], ip)
	}
	for _, ch := range g.children {
		c.Children = append(c.Children, buildComp(ch))
	}
	return c
}

func optInt(v int64, err error) string {
	if err != nil {
		return "e"
	}
	return fmt.Sprintf("%d", v)
}

// the model's view of a component's timing, computed through go-ical's own accessors
func sxTiming(g *gComp, c *ical.Component) string {
	rec := "n"
	if rp := c.Props.Get(ical.PropRecurrenceRule); rp != nil {
		if g.rec != nil {
			rec = sx("r", fmt.Sprint(g.rec.first), fmt.Sprint(g.rec.step), fmt.Sprint(g.rec.count))
		} else {
			rec = "e"
		}
	}
	ds := "n"
	if sp := c.Props.Get(ical.PropDateTimeStart); sp != nil {
		t, err := sp.DateTime(time.UTC)
		ds = sx("s", optInt(unixOrZero(t), err), b01(sp.ValueType() == ical.ValueDate))
	}
	es := "n"
	if ep := c.Props.Get(ical.PropDateTimeEnd); ep != nil {
		t, err := ep.DateTime(time.UTC)
		es = sx("dtend", optInt(unixOrZero(t), err))
	} else if dp := c.Props.Get(ical.PropDuration); dp != nil {
		d, err := dp.Duration()
		es = sx("dur", optInt(int64(d/time.Second), err))
	}
	return sx("tim", rec, ds, es)
}

func sxComp(g *gComp, c *ical.Component) string {
	var props []string
	for _, p := range g.props {
		var params []string
		for _, kv := range p.params {
			it := []string{hx(kv[0])}
			for _, v := range kv[1:] {
				it = append(it, hx(v))
			}
			params = append(params, sxl(it))
		}
		ip := ical.Prop{Name: p.name, Params: make(ical.Params), Value: p.value}
		for _, kv := range p.params {
			ip.Params[kv[0]] = append(ip.Params[kv[0]], kv[1:]...)
		}
		t, err := ip.DateTime(time.UTC)
		props = append(props, sx("p", hx(p.name), hx(p.value), sxl(params), optInt(unixOrZero(t), err)))
	}
	var ch []string
	for i, k := range g.children {
		ch = append(ch, sxComp(k, c.Children[i]))
	}
	return sx("comp", hx(g.name), sxl(props), sxTiming(g, c), sxl(ch))
}

func sxTM(tm *caldav.TextMatch) string {
	if tm == nil {
		return "nil"
	}
	return sx("tm", hx(tm.Text), b01(tm.NegateCondition))
}

func sxCompFilter(f caldav.CompFilter) string {
	var pfs, cfs []string
	for _, pf := range f.Props {
		var prms []string
		for _, pm := range pf.ParamFilter {
			prms = append(prms, sx("prm", hx(pm.Name), b01(pm.IsNotDefined), sxTM(pm.TextMatch)))
		}
		pfs = append(pfs, sx("pf", hx(pf.Name), b01(pf.IsNotDefined), fmt.Sprint(unixOrZero(pf.Start)), fmt.Sprint(unixOrZero(pf.End)), sxTM(pf.TextMatch), sxl(prms)))
	}
	for _, cf := range f.Comps {
		cfs = append(cfs, sxCompFilter(cf))
	}
	return sx("cf", hx(f.Name), b01(f.IsNotDefined), fmt.Sprint(unixOrZero(f.Start)), fmt.Sprint(unixOrZero(f.End)), sxl(pfs), sxl(cfs))
}

// cross-check the generator's knowledge of the recurrence instances against rrule-go
func checkRec(o *Out, g *gComp, c *ical.Component) {
	if g.rec != nil {
		rs, err := c.RecurrenceSet(time.UTC)
		if err != nil || rs == nil {
			o.Stat("rrule.MISMATCH")
			return
		}
		all := rs.All()
		ok := len(all) == g.rec.count
		for i := 0; ok && i < len(all); i++ {
			ok = all[i].Unix() == g.rec.first+int64(i)*g.rec.step
		}
		if ok {
			o.Stat("rrule.instances-crosschecked")
		} else {
			o.Stat("rrule.MISMATCH")
		}
	}
	for i, k := range g.children {
		checkRec(o, k, c.Children[i])
	}
}

func emitCalMatch(o *Out, f caldav.CompFilter, g *gComp) {
	comp := buildComp(g)
	snapshot := buildComp(g)
	checkRec(o, g, comp)
	co := &caldav.CalendarObject{Path: "/o", Data: &ical.Calendar{Component: comp}}
	fs := sxCompFilter(f)
	res := guard(func() string {
		ok, err := caldav.Match(f, co)
		if err != nil {
			return "err"
		}
		return "ok " + b01(ok)
	})
	if !reflect.DeepEqual(comp, snapshot) || sxCompFilter(f) != fs {
		res = "mutated"
	}
	o.Stat("calmatch." + strings.Replace(res, " ", "", -1))
	o.Emit("cal.match", fs+" "+sxComp(g, comp), res)
}

func emitCalFilter(o *Out, q *caldav.CalendarQuery, gs []*gComp) {
	var cos []caldav.CalendarObject
	var items []string
	var snaps []*ical.Component
	for i, g := range gs {
		c := buildComp(g)
		p := fmt.Sprintf("/o%d", i)
		cos = append(cos, caldav.CalendarObject{Path: p, ETag: "e" + p, Data: &ical.Calendar{Component: c}})
		snaps = append(snaps, buildComp(g))
		items = append(items, sx("co", hx(p), sxComp(g, c)))
	}
	qs := "nil"
	if q != nil {
		qs = sxCompFilter(q.CompFilter)
	}
	res := guard(func() string {
		out, err := caldav.Filter(q, cos)
		if err != nil {
			return "err"
		}
		var ps []string
		for _, co := range out {
			if co.ETag != "e"+co.Path {
				return "meta-lost"
			}
			ps = append(ps, hx(co.Path))
		}
		return "ok " + sxl(ps)
	})
	for i := range cos {
		if !reflect.DeepEqual(cos[i].Data.Component, snaps[i]) {
			res = "mutated"
		}
	}
	o.Stat("calfilter." + strings.Fields(res)[0])
	o.Emit("cal.filter", qs+" "+sxl(items), res)
}

func emitDtend(o *Out, g *gComp) {
	c := buildComp(g)
	ev := ical.Event{Component: c}
	res := guard(func() string {
		s, err := ev.DateTimeStart(time.UTC)
		if err != nil {
			return "err"
		}
		e, err := ev.DateTimeEnd(time.UTC)
		if err != nil {
			return "err"
		}
		return fmt.Sprintf("ok %d %d", unixOrZero(s), unixOrZero(e))
	})
	o.Emit("cal.dtend", sxTiming(g, c), res)
}

var calBase = time.Date(2024, 3, 10, 0, 0, 0, 0, time.UTC)

func tAt(h int) time.Time       { return calBase.Add(time.Duration(h) * time.Hour) }
func fmtUTC(t time.Time) string { return t.UTC().Format("20060102T150405Z") }

func evComp(props ...gProp) *gComp { return &gComp{name: "VEVENT", props: props} }
func calOf(children ...*gComp) *gComp {
	return &gComp{name: "VCALENDAR", props: []gProp{{name: "VERSION", value: "2.0"}}, children: children}
}
func rangeFilter(s, e time.Time) caldav.CompFilter {
	return caldav.CompFilter{Name: "VCALENDAR", Comps: []caldav.CompFilter{{Name: "VEVENT", Start: s, End: e}}}
}

// every relative ordering (incl. equalities) of range start/end, DTSTART and the event's end, per way of stating the end
func famCalOverlap(o *Out, r *RNG, thorough bool) {
	var zero time.Time
	bounds := []time.Time{zero, tAt(1), tAt(2), tAt(3), tAt(4)}
	for _, rs := range bounds {
		for _, re := range bounds {
			if rs.IsZero() && re.IsZero() {
				continue
			}
			f := rangeFilter(rs, re)
			for s := 0; s <= 5; s++ {
				ds := gProp{name: "DTSTART", value: fmtUTC(tAt(s))}
				// DTEND
				for e := 0; e <= 5; e++ {
					g := calOf(evComp(ds, gProp{name: "DTEND", value: fmtUTC(tAt(e))}))
					emitCalMatch(o, f, g)
				}
				// DURATION
				for _, d := range []string{"PT0S", "PT1H", "PT2H", "PT3H", "-PT1H", "P1D"} {
					g := calOf(evComp(ds, gProp{name: "DURATION", value: d}))
					emitCalMatch(o, f, g)
				}
				// no end: an instant
				emitCalMatch(o, f, calOf(evComp(ds)))
				// not an event
				emitCalMatch(o, f, calOf(&gComp{name: "VTODO", props: []gProp{ds}}))
			}
		}
	}
	// all-day starts (DATE values), with and without an end; day grid
	dayBounds := []time.Time{zero, tAt(-12), tAt(0), tAt(12), tAt(24), tAt(36), tAt(48)}
	for _, rs := range dayBounds {
		for _, re := range dayBounds {
			if rs.IsZero() && re.IsZero() {
				continue
			}
			f := rangeFilter(rs, re)
			ds := gProp{name: "DTSTART", value: "20240310", params: [][]string{{"VALUE", "DATE"}}}
			emitCalMatch(o, f, calOf(evComp(ds)))
			emitCalMatch(o, f, calOf(evComp(ds, gProp{name: "DTEND", value: "20240312", params: [][]string{{"VALUE", "DATE"}}})))
			emitCalMatch(o, f, calOf(evComp(ds, gProp{name: "DURATION", value: "P2D"})))
			emitCalMatch(o, f, calOf(evComp(gProp{name: "DTSTART", value: "20240310"})))
		}
	}
	// malformed time values, missing DTSTART
	for _, g := range []*gComp{
		calOf(evComp(gProp{name: "DTSTART", value: "garbage"})),
		calOf(evComp(gProp{name: "DTSTART", value: fmtUTC(tAt(2))}, gProp{name: "DTEND", value: "2024"})),
		calOf(evComp(gProp{name: "DTSTART", value: fmtUTC(tAt(2))}, gProp{name: "DURATION", value: "1H"})),
		calOf(evComp(gProp{name: "DTEND", value: fmtUTC(tAt(2))})),
		calOf(evComp()),
	} {
		emitCalMatch(o, rangeFilter(tAt(1), tAt(3)), g)
		emitCalMatch(o, rangeFilter(zero, tAt(3)), g)
		for _, ch := range g.children {
			emitDtend(o, ch)
		}
	}
	// recurring events: DAILY / WEEKLY, INTERVAL, COUNT, fixed duration, UTC
	hours := []int{-30, -1, 0, 1, 2, 23, 24, 25, 26, 47, 48, 49, 50, 72, 73, 200}
	if !thorough {
		hours = []int{-1, 0, 1, 2, 24, 25, 26, 48, 49, 73}
	}
	for _, freq := range []string{"DAILY", "WEEKLY"} {
		period := int64(86400)
		if freq == "WEEKLY" {
			period *= 7
		}
		for _, interval := range []int{1, 2} {
			for _, count := range []int{1, 3} {
				if freq == "WEEKLY" && (interval == 2 || !thorough && count == 3) {
					continue
				}
				// the length of every instance is the length of the event, however that is stated: no end at all,
				// a DURATION, or a DTEND (the same lengths stated either way must be answered alike)
				for _, dur := range []string{"", "PT0S", "PT1H", "PT25H", "end+1", "end+25", "end+0"} {
					props := []gProp{{name: "DTSTART", value: fmtUTC(tAt(1))},
						{name: "RRULE", value: fmt.Sprintf("FREQ=%s;INTERVAL=%d;COUNT=%d", freq, interval, count)}}
					if strings.HasPrefix(dur, "end+") {
						h, _ := strconv.Atoi(dur[4:])
						props = append(props, gProp{name: "DTEND", value: fmtUTC(tAt(1 + h))})
					} else if dur != "" {
						props = append(props, gProp{name: "DURATION", value: dur})
					}
					ev := evComp(props...)
					ev.rec = &gRec{first: tAt(1).Unix(), step: period * int64(interval), count: count}
					g := calOf(ev)
					for _, a := range hours {
						emitCalMatch(o, rangeFilter(tAt(a), zero), g)
						emitCalMatch(o, rangeFilter(zero, tAt(a)), g)
						for _, b := range hours {
							if b >= a-1 {
								emitCalMatch(o, rangeFilter(tAt(a), tAt(b)), g)
							}
						}
					}
				}
			}
		}
	}
	// long recurrences: the overlapping instance is far down the rule (hourly, daily; a range around instance k only)
	for _, rc := range []struct {
		freq   string
		period int64
		count  int
	}{{"DAILY", 86400, 1200}, {"HOURLY", 3600, 1001}, {"DAILY", 86400, 999}} {
		props := []gProp{{name: "DTSTART", value: fmtUTC(tAt(1))}, {name: "DURATION", value: "PT1H"},
			{name: "RRULE", value: fmt.Sprintf("FREQ=%s;COUNT=%d", rc.freq, rc.count)}}
		ev := evComp(props...)
		ev.rec = &gRec{first: tAt(1).Unix(), step: rc.period, count: rc.count}
		g := calOf(ev)
		for _, k := range []int{0, 1, 500, 998, 999, 1000, 1100, rc.count - 1, rc.count} {
			at := tAt(1).Add(time.Duration(int64(k)*rc.period) * time.Second)
			emitCalMatch(o, rangeFilter(at, at.Add(30*time.Minute)), g)
			emitCalMatch(o, rangeFilter(at.Add(-2*time.Hour), at.Add(-time.Hour)), g)
			emitCalMatch(o, rangeFilter(at.Add(30*time.Minute), zero), g)
		}
	}
	// property time ranges
	for _, rs := range bounds {
		for _, re := range bounds {
			if rs.IsZero() && re.IsZero() {
				continue
			}
			for s := 0; s <= 5; s++ {
				f := caldav.CompFilter{Name: "VCALENDAR", Comps: []caldav.CompFilter{{Name: "VEVENT",
					Props: []caldav.PropFilter{{Name: "DTSTAMP", Start: rs, End: re}}}}}
				emitCalMatch(o, f, calOf(evComp(gProp{name: "DTSTAMP", value: fmtUTC(tAt(s))})))
			}
			f := caldav.CompFilter{Name: "VCALENDAR", Comps: []caldav.CompFilter{{Name: "VEVENT",
				Props: []caldav.PropFilter{{Name: "SUMMARY", Start: rs, End: re}}}}}
			emitCalMatch(o, f, calOf(evComp(gProp{name: "SUMMARY", value: "x"})))
		}
	}
}

var calNames = []string{"VEVENT", "VTODO"}
var calPropNames = []string{"SUMMARY", "X-A"}

// filter trees enumerated to a small size over a 2-name alphabet with every flag
func famCalTree(o *Out, r *RNG, thorough bool) {
	objects := []*gComp{
		calOf(),
		calOf(evComp(gProp{name: "SUMMARY", value: "ab"})),
		calOf(&gComp{name: "VTODO", props: []gProp{{name: "X-A", value: "b", params: [][]string{{"P", "ab"}}}}}),
		calOf(evComp(gProp{name: "SUMMARY", value: "b", params: [][]string{{"P", ""}}}, gProp{name: "SUMMARY", value: "zz"}),
			&gComp{name: "VTODO", props: []gProp{{name: "SUMMARY", value: "a"}}}),
		calOf(&gComp{name: "VEVENT", props: []gProp{{name: "X-A", value: ""}},
			children: []*gComp{{name: "VALARM", props: []gProp{{name: "ACTION", value: "AUDIO"}}}}}),
	}
	tms := []*caldav.TextMatch{nil, {Text: "a"}, {Text: "a", NegateCondition: true}, {Text: ""}, {Text: "", NegateCondition: true}}
	var propFilters [][]caldav.PropFilter
	propFilters = append(propFilters, nil)
	for _, n := range calPropNames {
		for _, ind := range []bool{false, true} {
			for _, tm := range tms {
				if ind && tm != nil {
					continue
				}
				propFilters = append(propFilters, []caldav.PropFilter{{Name: n, IsNotDefined: ind, TextMatch: tm}})
			}
		}
	}
	// parameter filters
	for _, ind := range []bool{false, true} {
		for _, tm := range tms {
			if ind && tm != nil {
				continue
			}
			for _, pn := range []string{"P", "p", "Q"} {
				propFilters = append(propFilters, []caldav.PropFilter{{Name: "SUMMARY", ParamFilter: []caldav.ParamFilter{{Name: pn, IsNotDefined: ind, TextMatch: tm}}}})
				propFilters = append(propFilters, []caldav.PropFilter{{Name: "X-A", TextMatch: &caldav.TextMatch{Text: "b"}, ParamFilter: []caldav.ParamFilter{{Name: pn, IsNotDefined: ind, TextMatch: tm}}}})
			}
		}
	}
	propFilters = append(propFilters, []caldav.PropFilter{{Name: "summary"}}, []caldav.PropFilter{{Name: "SUMMARY"}, {Name: "X-A", IsNotDefined: true}})
	// level-2 filters
	var subs []caldav.CompFilter
	for _, n := range append(calNames, "VALARM") {
		for _, ind := range []bool{false, true} {
			if ind {
				subs = append(subs, caldav.CompFilter{Name: n, IsNotDefined: true})
				continue
			}
			for _, pfs := range propFilters {
				subs = append(subs, caldav.CompFilter{Name: n, Props: pfs})
			}
		}
	}
	subs = append(subs, caldav.CompFilter{Name: "VEVENT", Comps: []caldav.CompFilter{{Name: "VALARM"}}},
		caldav.CompFilter{Name: "VEVENT", Comps: []caldav.CompFilter{{Name: "VALARM", IsNotDefined: true}}},
		caldav.CompFilter{Name: "VEVENT", Comps: []caldav.CompFilter{{Name: "VALARM", Props: []caldav.PropFilter{{Name: "ACTION", TextMatch: &caldav.TextMatch{Text: "DIS"}}}}}})
	for _, top := range []string{"VCALENDAR", "VEVENT"} {
		for _, tind := range []bool{false, true} {
			for _, g := range objects {
				emitCalMatch(o, caldav.CompFilter{Name: top, IsNotDefined: tind}, g)
				for i, s1 := range subs {
					emitCalMatch(o, caldav.CompFilter{Name: top, IsNotDefined: tind, Comps: []caldav.CompFilter{s1}}, g)
					if tind {
						continue
					}
					// pairs of nested filters
					for j, s2 := range subs {
						if thorough || (i*7+j)%23 == 0 {
							emitCalMatch(o, caldav.CompFilter{Name: top, Comps: []caldav.CompFilter{s1, s2}}, g)
						}
					}
				}
			}
		}
	}
	// one text-match alone decides: every text x every value x negation, on a property and on a parameter (random
	// filters have so many conjuncts that a single text-match seldom decides the outcome)
	for _, text := range calTexts {
		for _, value := range calTexts {
			for _, neg := range []bool{false, true} {
				tm := &caldav.TextMatch{Text: text, NegateCondition: neg}
				g := calOf(&gComp{name: "VEVENT", props: []gProp{{name: "SUMMARY", value: value, params: [][]string{{"P", value}}}}})
				emitCalMatch(o, caldav.CompFilter{Name: "VCALENDAR", Comps: []caldav.CompFilter{{Name: "VEVENT", Props: []caldav.PropFilter{{Name: "SUMMARY", TextMatch: tm}}}}}, g)
				emitCalMatch(o, caldav.CompFilter{Name: "VCALENDAR", Comps: []caldav.CompFilter{{Name: "VEVENT", Props: []caldav.PropFilter{{Name: "SUMMARY", ParamFilter: []caldav.ParamFilter{{Name: "P", TextMatch: tm}}}}}}}, g)
			}
		}
	}
	n := 3000
	if thorough {
		n = 60000
	}
	for i := 0; i < n; i++ {
		emitCalMatch(o, randCompFilter(r, 0, "VCALENDAR"), randCal(r))
	}
	// Filter
	emitCalFilter(o, nil, objects)
	emitCalFilter(o, nil, nil)
	for _, s1 := range subs {
		q := &caldav.CalendarQuery{CompFilter: caldav.CompFilter{Name: "VCALENDAR", Comps: []caldav.CompFilter{s1}}}
		emitCalFilter(o, q, objects)
	}
	for i := 0; i < n/10; i++ {
		var gs []*gComp
		for j := r.Range(0, 5); j > 0; j-- {
			gs = append(gs, randCal(r))
		}
		emitCalFilter(o, &caldav.CalendarQuery{CompFilter: randCompFilter(r, 0, "VCALENDAR")}, gs)
	}
}

var calTexts = []string{"", "a", "ab", "b", "é", "a b", " a", "a ", " ", "b\t", "\ta b "}

func randTM(r *RNG) *caldav.TextMatch {
	if r.Chance(40) {
		return nil
	}
	return &caldav.TextMatch{Text: r.Pick(calTexts), NegateCondition: r.Chance(35)}
}

func randRangeT(r *RNG) (time.Time, time.Time) {
	var s, e time.Time
	if r.Chance(75) {
		s = tAt(r.Range(0, 6))
	}
	if r.Chance(75) {
		e = tAt(r.Range(0, 6))
	}
	return s, e
}

func randCompFilter(r *RNG, depth int, name string) caldav.CompFilter {
	f := caldav.CompFilter{Name: name}
	if r.Chance(12) {
		f.Name = r.Pick([]string{"VEVENT", "VTODO", "VCALENDAR", "VALARM"})
	}
	if r.Chance(12) {
		f.IsNotDefined = true
		return f
	}
	if name == "VEVENT" && r.Chance(35) {
		f.Start, f.End = randRangeT(r)
	}
	for i := r.Range(0, 2); i > 0; i-- {
		pf := caldav.PropFilter{Name: r.Pick([]string{"SUMMARY", "X-A", "DTSTAMP", "summary", "DTSTART"})}
		switch {
		case r.Chance(15):
			pf.IsNotDefined = true
		case r.Chance(15) && (pf.Name == "DTSTAMP" || pf.Name == "DTSTART"):
			pf.Start, pf.End = randRangeT(r)
		default:
			pf.TextMatch = randTM(r)
			for j := r.Range(0, 2); j > 0 && r.Chance(50); j-- {
				pm := caldav.ParamFilter{Name: r.Pick([]string{"P", "Q", "p"})}
				if r.Chance(30) {
					pm.IsNotDefined = true
				} else {
					pm.TextMatch = randTM(r)
				}
				pf.ParamFilter = append(pf.ParamFilter, pm)
			}
		}
		f.Props = append(f.Props, pf)
	}
	if depth < 3 {
		for i := r.Range(0, 2); i > 0; i-- {
			sub := "VEVENT"
			if depth > 0 {
				sub = "VALARM"
			} else if r.Chance(30) {
				sub = "VTODO"
			}
			f.Comps = append(f.Comps, randCompFilter(r, depth+1, sub))
		}
	}
	return f
}

func randProps(r *RNG) []gProp {
	var ps []gProp
	for _, n := range []string{"SUMMARY", "X-A", "SUMMARY"} {
		if r.Chance(55) {
			p := gProp{name: n, value: r.Pick(calTexts)}
			for _, pn := range []string{"P", "Q"} {
				if r.Chance(35) {
					kv := []string{pn}
					for j := r.Range(0, 2); j > 0; j-- {
						kv = append(kv, r.Pick(calTexts))
					}
					if len(kv) > 1 {
						p.params = append(p.params, kv)
					}
				}
			}
			ps = append(ps, p)
		}
	}
	if r.Chance(40) {
		ps = append(ps, gProp{name: "DTSTAMP", value: fmtUTC(tAt(r.Range(0, 6)))})
	}
	return ps
}

func randCal(r *RNG) *gComp {
	cal := calOf()
	for i := r.Range(0, 3); i > 0; i-- {
		c := &gComp{name: "VEVENT", props: randProps(r)}
		if r.Chance(25) {
			c.name = "VTODO"
		}
		if c.name == "VEVENT" || r.Chance(50) {
			s := r.Range(0, 6)
			c.props = append(c.props, gProp{name: "DTSTART", value: fmtUTC(tAt(s))})
			switch r.Intn(4) {
			case 0:
				c.props = append(c.props, gProp{name: "DTEND", value: fmtUTC(tAt(r.Range(0, 7)))})
			case 1:
				c.props = append(c.props, gProp{name: "DURATION", value: r.Pick([]string{"PT0S", "PT1H", "PT2H", "P1D"})})
			}
			if c.name == "VEVENT" && r.Chance(15) {
				cnt := r.Range(1, 3)
				c.props = append(c.props, gProp{name: "RRULE", value: fmt.Sprintf("FREQ=DAILY;COUNT=%d", cnt)})
				c.rec = &gRec{first: tAt(s).Unix(), step: 86400, count: cnt}
			}
		}
		if r.Chance(30) {
			c.children = append(c.children, &gComp{name: "VALARM", props: randProps(r)})
		}
		cal.children = append(cal.children, c)
	}
	return cal
}

func init() {
	families["caloverlap"] = famCalOverlap
	families["caltree"] = famCalTree
}
