package main

import (
	"fmt"
	"io"
	"net/http"
	"net/http/httptest"
	"sort"
	"strings"

	webdav "github.com/emersion/go-webdav"
	"github.com/emersion/go-webdav/caldav"
	"github.com/emersion/go-webdav/carddav"
)

// C13: every request gets a complete answer; malformed requests get 4xx and never reach a mutating backend call.
// Requests are generated from abstract descriptors (server, method, hierarchy level, header classes, body class);
// the Lean model (Impl.Frontend) predicts status and mutation from the descriptor alone.

type frontReq struct {
	srv, method    string
	level          int
	exists         bool
	ctype, body    string
	depth, ow, dst string
	// where the handler is mounted (Handler.Prefix, spelled with or without a trailing slash) and whether the mount
	// root is addressed without its trailing slash: NOT part of the descriptor the model sees, the answer must not
	// depend on it
	prefix      string
	prefixSlash bool
	bareRoot    bool
	// the body is sent without a declared length (ContentLength -1, as with chunked transfer coding): not part of the
	// descriptor either
	unknownLen bool
}

type onlyReader struct{ r io.Reader }

func (o onlyReader) Read(p []byte) (int, error) { return o.r.Read(p) }

func (q frontReq) sx() string {
	return sx("rq", q.srv, hx(q.method), itoa(q.level), b01(q.exists), q.ctype, q.body, q.depth, q.ow, q.dst)
}

var frontMethods = []string{"OPTIONS", "GET", "HEAD", "PUT", "DELETE", "PROPFIND", "PROPPATCH", "MKCOL", "COPY", "MOVE", "REPORT", "FOO", "get", "POST", "LOCK"}
var frontCtypes = []string{"none", "xml", "textxml", "obj", "objparam", "otherobj", "other", "bad", "objbadparam", "xmlbadparam"}
var frontBodies = []string{"empty", "trunc", "random", "wrongroot", "noform", "valid", "objok", "objbad", "badrt"}
var frontDepths = []string{"absent", "0", "1", "infinity", "bad"}
var frontOws = []string{"absent", "T", "F", "bad"}
var frontDsts = []string{"absent", "ok", "bad"}

const frontIcal = "BEGIN:VCALENDAR\r\nVERSION:2.0\r\nPRODID:-//x//EN\r\nBEGIN:VEVENT\r\nUID:u1\r\nDTSTAMP:20240310T010000Z\r\nDTSTART:20240310T010000Z\r\nSUMMARY:s\r\nEND:VEVENT\r\nEND:VCALENDAR\r\n"
const frontVcard = "BEGIN:VCARD\r\nVERSION:4.0\r\nFN:A B\r\nEND:VCARD\r\n"

func frontPath(q frontReq) string {
	if q.level == 0 && q.bareRoot && q.prefix != "" {
		return q.prefix
	}
	return q.prefix + frontRelPath(q)
}

func frontRelPath(q frontReq) string {
	col, obj := "cal", "x.ics"
	if q.srv == "card" {
		col, obj = "ab", "x.vcf"
	}
	switch q.level {
	case 0:
		return "/"
	case 1:
		return "/u/"
	case 2:
		return "/u/" + col + "/"
	case 3:
		if q.exists {
			return "/u/" + col + "/a/"
		}
		return "/u/" + col + "/new/"
	case 4:
		if q.exists {
			return "/u/" + col + "/a/" + obj
		}
		return "/u/" + col + "/a/new-" + obj
	}
	return "/u/" + col + "/a/" + obj + "/deep"
}

// a valid XML body for the method
func frontValidXML(q frontReq, r *RNG) string {
	return randStyle(r).doc(frontValidRoot(q, r))
}

func frontValidRoot(q frontReq, r *RNG) *wEl {
	nsX, coll := nsCal, "calendar"
	if q.srv == "card" {
		nsX, coll = nsCard, "addressbook"
	}
	var root *wEl
	switch q.method {
	case "PROPFIND":
		switch r.Intn(3) {
		case 0:
			root = E("DAV:", "propfind", E("DAV:", "allprop"))
		case 1:
			root = E("DAV:", "propfind", E("DAV:", "propname"))
		default:
			root = E("DAV:", "propfind", E("DAV:", "prop", E("DAV:", "getetag"), E("DAV:", "displayname"), E("urn:x", "unknown")))
		}
	case "PROPPATCH":
		// the shapes a property update may take: set and/or remove, one, several or no property in an instruction,
		// properties of foreign namespaces
		switch r.Intn(7) {
		case 0:
			root = E("DAV:", "propertyupdate", E("DAV:", "set", E("DAV:", "prop")))
		case 1:
			root = E("DAV:", "propertyupdate", E("DAV:", "remove", E("DAV:", "prop")))
		case 2:
			root = E("DAV:", "propertyupdate", E("DAV:", "remove", E("DAV:", "prop", E("DAV:", "displayname"))), E("DAV:", "set", E("DAV:", "prop", E("urn:schemas-microsoft-com:", "Win32LastModifiedTime").T("x"), E("DAV:", "displayname").T("n"))))
		case 3:
			root = E("DAV:", "propertyupdate", E("DAV:", "set", E("DAV:", "prop", E("urn:x", "color").T("red"))))
		case 4:
			root = E("DAV:", "propertyupdate")
		default:
			root = E("DAV:", "propertyupdate", E("DAV:", "set", E("DAV:", "prop", E("DAV:", "displayname").T("n"))))
		}
	case "MKCOL":
		root = E("DAV:", "mkcol", E("DAV:", "set", E("DAV:", "prop", E("DAV:", "resourcetype", E("DAV:", "collection"), E(nsX, coll)), E("DAV:", "displayname").T("n"))))
	case "REPORT":
		if q.srv == "card" {
			root = E(nsCard, "addressbook-query", E("DAV:", "prop", E("DAV:", "getetag")), E(nsCard, "filter"))
		} else {
			root = E(nsCal, "calendar-query", E("DAV:", "prop", E("DAV:", "getetag")), E(nsCal, "filter", E(nsCal, "comp-filter").A("name", "VCALENDAR")))
		}
	default:
		root = E("DAV:", "propfind", E("DAV:", "allprop"))
	}
	return root
}

func frontBody(q frontReq, r *RNG) string {
	switch q.body {
	case "empty":
		return ""
	case "trunc":
		d := frontValidXML(q, r)
		// not well-formed XML: a truncation strictly inside the document, or one of the classic well-formedness errors a
		// lenient parser lets through
		switch r.Intn(8) {
		case 0: // an end tag that does not match its start tag
			if i := strings.LastIndex(d, "</"); i >= 0 {
				if j := strings.Index(d[i:], ">"); j > 2 {
					return d[:i+2] + "x" + d[i+2:]
				}
			}
		case 1: // a bare ampersand in character data
			if i := strings.LastIndex(d, "</"); i >= 0 {
				return d[:i] + "a & b" + d[i:]
			}
		case 2: // an undeclared entity
			if i := strings.LastIndex(d, "</"); i >= 0 {
				return d[:i] + "&bogus;" + d[i:]
			}
		case 3: // an unquoted attribute value / an attribute without value on the root element
			if i := strings.Index(d[1:], ">"); i >= 0 {
				k := i + 1
				if d[k-1] == '/' {
					k--
				}
				return d[:k] + r.Pick([]string{" verif=1", " verif"}) + d[k:]
			}
		}
		return d[:1+r.Intn(len(d)-2)]
	case "random":
		n := r.Range(1, 40)
		b := make([]byte, n)
		for i := range b {
			b[i] = byte(r.Intn(256))
		}
		if b[0] == '<' || b[0] == 0xEF {
			b[0] = 'x'
		}
		return string(b)
	case "wrongroot":
		if r.Chance(40) {
			// the right document for this method under the right local name, in ANOTHER namespace: a root element is
			// named by its expanded name
			root := frontValidRoot(q, r)
			other := []string{"urn:x", nsCard, nsCal, "DAV:", ""}
			for {
				if ns := r.Pick(other); ns != root.ns {
					root.ns = ns
					break
				}
			}
			return randStyle(r).doc(root)
		}
		return randStyle(r).doc(E(r.Pick([]string{"DAV:", "urn:x", nsCal}), r.Pick([]string{"nonsense", "multistatus", "propfind2"}), E("DAV:", "allprop")))
	case "noform":
		switch q.method {
		case "PROPFIND":
			return randStyle(r).doc(E("DAV:", "propfind", E("urn:x", "something")))
		}
		return frontValidXML(q, r)
	case "valid":
		return frontValidXML(q, r)
	case "objok":
		if q.srv == "card" {
			return frontVcard
		}
		return frontIcal
	case "objbad":
		return r.Pick([]string{"hello", "BEGIN:VCALENDAR\r\nVERSION:2.0\r\n", "BEGIN:VCARD\r\nFN", "\x00\x01\x02", "END:VCALENDAR\r\n", "BEGIN:VEVENT\r\nEND:VCALENDAR\r\n"})
	case "badrt":
		return randStyle(r).doc(E("DAV:", "mkcol", E("DAV:", "set", E("DAV:", "prop", E("DAV:", "resourcetype", E("DAV:", "collection")), E("DAV:", "displayname").T("n")))))
	}
	return ""
}

// malformed media-type parameters: mime.ParseMediaType returns the media type together with ErrInvalidMediaParameter
var badParams = []string{"; charset", "; charset=", "; =utf-8", "; charset=\"utf-8", "; component=VEVENT garbage"}
var badParamCounter int

func h2i(h http.Header) int { badParamCounter++; return badParamCounter }

func frontHeaders(q frontReq, h http.Header) {
	obj, other := "text/calendar", "text/vcard"
	if q.srv == "card" {
		obj, other = other, obj
	}
	switch q.ctype {
	case "xml":
		h.Set("Content-Type", xmlCTSpelling(q.level*7+len(q.method)+len(q.body)+len(q.prefix)))
	case "textxml":
		h.Set("Content-Type", "text/xml")
	case "obj":
		h.Set("Content-Type", obj)
	case "objparam":
		h.Set("Content-Type", obj+"; charset=utf-8")
	case "otherobj":
		h.Set("Content-Type", other)
	case "other":
		h.Set("Content-Type", "application/json")
	case "bad":
		h.Set("Content-Type", "text/;;=")
	case "objbadparam":
		h.Set("Content-Type", obj+badParams[int(h2i(h))%len(badParams)])
	case "xmlbadparam":
		h.Set("Content-Type", "application/xml"+badParams[int(h2i(h))%len(badParams)])
	}
	switch q.depth {
	case "0", "1", "infinity":
		h.Set("Depth", q.depth)
	case "bad":
		h.Set("Depth", badDepths[(q.level*3+len(q.method)+len(q.body)+len(q.ctype))%len(badDepths)])
	}
	switch q.ow {
	case "T", "F":
		h.Set("Overwrite", q.ow)
	case "bad":
		h.Set("Overwrite", "yes")
	}
	switch q.dst {
	case "ok":
		h.Set("Destination", "http://example.com/u/x/dest")
	case "bad":
		h.Set("Destination", "http://exa mple.com/%zz")
	}
}

func (q frontReq) handlerPrefix() string {
	if q.prefixSlash {
		return q.prefix + "/"
	}
	return q.prefix
}

func isMutating(call string) bool {
	for _, p := range []string{"CreateCalendar", "PutCalendarObject", "DeleteCalendarObject", "CreateAddressBook", "DeleteAddressBook", "PutAddressObject", "DeleteAddressObject"} {
		if strings.HasPrefix(call, p) {
			return true
		}
	}
	return false
}

// the names of the backend calls a request leads to, in order, when its path is spelled `p`
func frontCallNames(q frontReq, body, p string) (names []string) {
	defer func() { recover() }()
	req := httptest.NewRequest("GET", "http://example.com/", strings.NewReader(body))
	req.URL.Path = p
	req.Method = q.method
	frontHeaders(q, req.Header)
	rec := httptest.NewRecorder()
	var calls []string
	px := q.prefix
	switch q.srv {
	case "cal":
		b := &calBackend{principal: px + "/u/", homeSet: px + "/u/cal/",
			calendars: []caldav.Calendar{{Path: px + "/u/cal/a/", Name: "A"}},
			objects:   map[string][]caldav.CalendarObject{px + "/u/cal/a/": {{Path: px + "/u/cal/a/x.ics", ETag: "e1", Data: simpleCal("u1", "s")}}}}
		(&caldav.Handler{Backend: b, Prefix: q.handlerPrefix()}).ServeHTTP(rec, req)
		calls = b.log.take()
	case "card":
		b := &cardBackend{principal: px + "/u/", homeSet: px + "/u/ab/",
			books:   []carddav.AddressBook{{Path: px + "/u/ab/a/", Name: "A"}},
			objects: map[string][]carddav.AddressObject{px + "/u/ab/a/": {{Path: px + "/u/ab/a/x.vcf", ETag: "e1", Card: simpleCard("A B")}}}}
		(&carddav.Handler{Backend: b, Prefix: q.handlerPrefix()}).ServeHTTP(rec, req)
		calls = b.log.take()
	}
	for _, c := range calls {
		if f := strings.Fields(c); len(f) > 0 && f[0] != "NilObject" {
			names = append(names, f[0])
		}
	}
	return names
}

// The level of a path is its depth below the prefix, with or without a trailing slash: the backend operation a request
// starts with must not depend on that slash (what the backend then answers for the path as spelled is its own affair).
func slashDependent(q frontReq, body string) bool {
	// (at collection and object level, where the operation is handed the request path; above, what follows the level
	// decision depends on whether the path IS the current user's principal or home set)
	if q.srv == "prin" || q.level < 3 {
		return false
	}
	p := frontPath(q)
	alt := p + "/"
	if strings.HasSuffix(p, "/") {
		alt = strings.TrimSuffix(p, "/")
	}
	a, b := frontCallNames(q, body, p), frontCallNames(q, body, alt)
	first := func(l []string) string {
		if len(l) == 0 {
			return "-"
		}
		return l[0]
	}
	return first(a) != first(b)
}

func runFront(q frontReq, body string) string {
	return guard(func() string {
		req := httptest.NewRequest("GET", "http://example.com/", strings.NewReader(body))
		req.URL.Path = frontPath(q) // (as a server sees it: the path decoded; prefixes may hold characters URLs escape)
		req.Method = q.method
		if q.unknownLen {
			req.ContentLength = -1
			req.Body = io.NopCloser(onlyReader{strings.NewReader(body)})
		}
		frontHeaders(q, req.Header)
		rec := httptest.NewRecorder()
		mutated := false
		nilObject := false // the backend was handed a nil calendar / card
		altered := false   // a backend call carried a path that is neither the request path nor one of the backend's own
		objReads := 0      // object-level read calls (Get…Object)
		switch q.srv {
		case "cal":
			px := q.prefix
			b := &calBackend{principal: px + "/u/", homeSet: px + "/u/cal/",
				calendars: []caldav.Calendar{{Path: px + "/u/cal/a/", Name: "A"}},
				objects:   map[string][]caldav.CalendarObject{px + "/u/cal/a/": {{Path: px + "/u/cal/a/x.ics", ETag: "e1", Data: simpleCal("u1", "s")}}}}
			(&caldav.Handler{Backend: b, Prefix: q.handlerPrefix()}).ServeHTTP(rec, req)
			known := map[string]bool{req.URL.Path: true, b.principal: true, b.homeSet: true, px + "/u/cal/a/": true, px + "/u/cal/a/x.ics": true}
			for _, c := range b.log.take() {
				mutated = mutated || isMutating(c)
				altered = altered || callPathAltered(c, known)
				nilObject = nilObject || c == "NilObject"
				if strings.HasPrefix(c, "GetCalendarObject ") {
					objReads++
				}
			}
		case "card":
			px := q.prefix
			b := &cardBackend{principal: px + "/u/", homeSet: px + "/u/ab/",
				books:   []carddav.AddressBook{{Path: px + "/u/ab/a/", Name: "A"}},
				objects: map[string][]carddav.AddressObject{px + "/u/ab/a/": {{Path: px + "/u/ab/a/x.vcf", ETag: "e1", Card: simpleCard("A B")}}}}
			(&carddav.Handler{Backend: b, Prefix: q.handlerPrefix()}).ServeHTTP(rec, req)
			known := map[string]bool{req.URL.Path: true, b.principal: true, b.homeSet: true, px + "/u/ab/a/": true, px + "/u/ab/a/x.vcf": true}
			for _, c := range b.log.take() {
				mutated = mutated || isMutating(c)
				altered = altered || callPathAltered(c, known)
				nilObject = nilObject || c == "NilObject"
				if strings.HasPrefix(c, "GetAddressObject ") {
					objReads++
				}
			}
		case "prin":
			webdav.ServePrincipal(rec, req, &webdav.ServePrincipalOptions{CurrentUserPrincipalPath: "/u/",
				HomeSets: []webdav.BackendSuppliedHomeSet{caldav.NewCalendarHomeSet("/u/cal/")}, Capabilities: []webdav.Capability{caldav.CapabilityCalendar}})
		}
		res := rec.Result()
		// a complete response: a status line and, for 207, a well-formed body
		if res.StatusCode == 207 {
			if _, err := treeOfBytes(rec.Body.Bytes()); err != nil {
				return fmt.Sprintf("%d-broken-body %s", res.StatusCode, b01(mutated))
			}
		}
		if nilObject {
			return fmt.Sprintf("%d-nil-object %s", res.StatusCode, b01(mutated))
		}
		if altered {
			return fmt.Sprintf("%d %s altered-path", res.StatusCode, b01(mutated))
		}
		// OPTIONS follows the level like every other method: only at object depth is the object looked up (and the answer
		// says what can be done with an object that exists / does not exist yet); every other depth - deeper ones
		// included - gets the collection-side answer and no object is asked for
		if q.method == "OPTIONS" && q.srv != "prin" && res.StatusCode/100 == 2 {
			var allow []string
			for _, v := range res.Header.Values("Allow") {
				for _, m := range strings.Split(v, ",") {
					allow = append(allow, strings.TrimSpace(m))
				}
			}
			sort.Strings(allow)
			want, wantReads := "DELETE,MKCOL,OPTIONS,PROPFIND,REPORT", 0
			if q.level == 4 {
				want, wantReads = "OPTIONS,PUT", 1
				if q.exists {
					want = "DELETE,GET,HEAD,OPTIONS,PROPFIND,PUT"
				}
			}
			if strings.Join(allow, ",") != want || objReads != wantReads {
				return fmt.Sprintf("%d %s options-not-by-level", res.StatusCode, b01(mutated))
			}
		}
		if slashDependent(q, body) {
			return fmt.Sprintf("%d %s slash-dependent", res.StatusCode, b01(mutated))
		}
		return fmt.Sprintf("%d %s", res.StatusCode, b01(mutated))
	})
}

// a logged backend call "Name <hex path> …": the path must be the request path unchanged (with or without its trailing
// slash, as sent) or a path the backend itself handed out
func callPathAltered(call string, known map[string]bool) bool {
	f := strings.Fields(call)
	if len(f) < 2 {
		return false
	}
	p, err := unhxString(f[1])
	if err != nil {
		return false
	}
	return !known[p]
}

func emitFront(o *Out, r *RNG, q frontReq) {
	body := frontBody(q, r)
	res := runFront(q, body)
	o.Stat("front." + q.srv + "." + strings.Fields(res)[0])
	o.Emit("srv.req", q.sx(), res)
	if !q.unknownLen && (q.body == "empty" || q.body == "valid") {
		// the same request with a body of undeclared length
		q.unknownLen = true
		res := runFront(q, body)
		o.Stat("front.unknownlen." + strings.Fields(res)[0])
		o.Emit("srv.req", q.sx(), res)
	}
}

// srv.opt: the raw answer to OPTIONS (the sorted Allow set, the number of object look-ups it cost) at every level, for
// an existing and a missing collection / object, under several mount prefixes in both spellings and with and without
// the trailing slash of the request path - answered by the model's `options` (C12_options_by_level)
func emitSrvOptions(o *Out) {
	for _, srv := range []string{"cal", "card"} {
		for _, px := range []string{"", "/p", "/a/b/c", "/my dav"} {
			for _, pslash := range []bool{false, true} {
				for lvl := 0; lvl <= 5; lvl++ {
					for _, ex := range []bool{true, false} {
						for _, trim := range []bool{false, true} {
							q := frontReq{srv: srv, method: "OPTIONS", level: lvl, exists: ex, ctype: "none", body: "empty", depth: "absent", ow: "absent", dst: "absent", prefix: px, prefixSlash: pslash}
							res := guard(func() string {
								req := httptest.NewRequest("OPTIONS", "http://example.com/", nil)
								req.URL.Path = frontPath(q)
								if trim && len(req.URL.Path) > 1 {
									req.URL.Path = strings.TrimSuffix(req.URL.Path, "/")
								}
								rec := httptest.NewRecorder()
								reads := 0
								if srv == "cal" {
									b := &calBackend{principal: px + "/u/", homeSet: px + "/u/cal/", calendars: []caldav.Calendar{{Path: px + "/u/cal/a/", Name: "A"}},
										objects: map[string][]caldav.CalendarObject{px + "/u/cal/a/": {{Path: px + "/u/cal/a/x.ics", ETag: "e1", Data: simpleCal("u1", "s")}}}}
									(&caldav.Handler{Backend: b, Prefix: q.handlerPrefix()}).ServeHTTP(rec, req)
									for _, c := range b.log.take() {
										if strings.HasPrefix(c, "GetCalendarObject ") {
											reads++
										}
									}
								} else {
									b := &cardBackend{principal: px + "/u/", homeSet: px + "/u/ab/", books: []carddav.AddressBook{{Path: px + "/u/ab/a/", Name: "A"}},
										objects: map[string][]carddav.AddressObject{px + "/u/ab/a/": {{Path: px + "/u/ab/a/x.vcf", ETag: "e1", Card: simpleCard("A B")}}}}
									(&carddav.Handler{Backend: b, Prefix: q.handlerPrefix()}).ServeHTTP(rec, req)
									for _, c := range b.log.take() {
										if strings.HasPrefix(c, "GetAddressObject ") {
											reads++
										}
									}
								}
								var allow []string
								for _, v := range rec.Result().Header.Values("Allow") {
									for _, m := range strings.Split(v, ",") {
										allow = append(allow, strings.TrimSpace(m))
									}
								}
								sort.Strings(allow)
								return fmt.Sprintf("%d %s %d", rec.Code, strings.Join(allow, ","), reads)
							})
							o.Stat("srvopt." + srv)
							o.Emit("srv.opt", fmt.Sprintf("%s %d %s", srv, lvl, b01(ex)), res)
						}
					}
				}
			}
		}
	}
}

func famSrvFront(o *Out, r *RNG, thorough bool) {
	emitSrvOptions(o)
	srvs := []string{"cal", "card", "prin"}
	// exhaustive: server x method x level x content type x body class (headers at their defaults)
	for _, srv := range srvs {
		for _, m := range frontMethods {
			for lvl := 0; lvl <= 5; lvl++ {
				if srv == "prin" && lvl != 1 {
					continue
				}
				for _, ex := range []bool{true, false} {
					if !ex && lvl != 3 && lvl != 4 {
						continue
					}
					for _, ct := range frontCtypes {
						for _, bd := range frontBodies {
							emitFront(o, r, frontReq{srv: srv, method: m, level: lvl, exists: ex, ctype: ct, body: bd, depth: "absent", ow: "absent", dst: "absent"})
						}
					}
				}
			}
		}
		// the same table wherever the handler is mounted: prefixes of one to four segments in both spellings, the mount
		// root with and without its trailing slash
		if srv != "prin" {
			for _, px := range []string{"/p", "/p/q", "/a/b/c", "/a/b/c/d", "/my dav", "/kalender/j\u00f6rg", "/a+b/100%"} {
				for _, slash := range []bool{false, true} {
					for _, m := range frontMethods {
						for lvl := 0; lvl <= 5; lvl++ {
							for _, ex := range []bool{true, false} {
								if !ex && lvl != 3 && lvl != 4 {
									continue
								}
								for _, cb := range [][2]string{{"none", "empty"}, {"xml", "valid"}, {"obj", "objok"}} {
									q := frontReq{srv: srv, method: m, level: lvl, exists: ex, ctype: cb[0], body: cb[1], depth: "absent", ow: "absent", dst: "absent", prefix: px, prefixSlash: slash}
									emitFront(o, r, q)
									if lvl == 0 {
										q.bareRoot = true
										emitFront(o, r, q)
									}
								}
							}
						}
					}
				}
			}
		}
		// exhaustive: header classes for the methods that read them
		for _, m := range []string{"PROPFIND", "COPY", "MOVE"} {
			for _, d := range frontDepths {
				for _, ow := range frontOws {
					for _, ds := range frontDsts {
						for _, lvl := range []int{1, 3, 4} {
							if srv == "prin" && lvl != 1 {
								continue
							}
							emitFront(o, r, frontReq{srv: srv, method: m, level: lvl, exists: true, ctype: "xml", body: "valid", depth: d, ow: ow, dst: ds})
						}
					}
				}
			}
		}
	}
	// random descriptors; truncation at every offset of one valid document per XML method
	n := 3000
	if thorough {
		n = 60000
	}
	for i := 0; i < n; i++ {
		q := frontReq{srv: srvs[r.Intn(3)], method: r.Pick(frontMethods), level: r.Intn(6), exists: r.Bool(), ctype: r.Pick(frontCtypes), body: r.Pick(frontBodies),
			depth: r.Pick(frontDepths), ow: r.Pick(frontOws), dst: r.Pick(frontDsts)}
		if q.srv == "prin" {
			q.level, q.exists = 1, true
		}
		if q.level != 3 && q.level != 4 {
			q.exists = true
		}
		emitFront(o, r, q)
	}
	for _, srv := range srvs {
		for _, m := range []string{"PROPFIND", "PROPPATCH", "MKCOL", "REPORT"} {
			q := frontReq{srv: srv, method: m, level: 3, exists: m != "MKCOL", ctype: "xml", body: "trunc", depth: "absent", ow: "absent", dst: "absent"}
			if srv == "prin" {
				q.level, q.exists = 1, true
			}
			doc := frontValidXML(q, r)
			for cut := 1; cut < len(doc)-1; cut++ {
				res := runFront(q, doc[:cut])
				o.Stat("front.trunc." + strings.Fields(res)[0])
				o.Emit("srv.req", q.sx(), res)
			}
		}
	}
}

// object bodies: structure-aware mutations of a valid iCalendar / vCard object, sent with the right media type.
// The object parsers (go-ical, go-vcard) are outside the model: the driver only judges the outcome.
func mutateObject(r *RNG, doc string) string {
	lines := strings.Split(strings.TrimSuffix(doc, "\r\n"), "\r\n")
	switch r.Intn(12) {
	case 0: // drop a line
		i := r.Intn(len(lines))
		lines = append(lines[:i:i], lines[i+1:]...)
	case 1: // duplicate a line
		i := r.Intn(len(lines))
		lines = append(lines[:i+1:i+1], lines[i:]...)
	case 2: // truncate the document
		d := strings.Join(lines, "\r\n")
		return d[:r.Intn(len(d))]
	case 3: // parameter with a quoted value followed by junk
		lines[r.Intn(len(lines))] = `X;A="b"c:v`
	case 4: // dangling parameter
		lines[r.Intn(len(lines))] = "SUMMARY;X="
	case 5: // no colon
		lines[r.Intn(len(lines))] = "SUMMARY"
	case 6: // unbalanced quote
		lines[r.Intn(len(lines))] = `ATTENDEE;CN="x:mailto:a@b`
	case 7: // folding in odd places
		i := r.Intn(len(lines))
		if len(lines[i]) > 3 {
			lines[i] = lines[i][:2] + "\r\n " + lines[i][2:]
		}
	case 8: // a fold with nothing before it
		lines = append([]string{" continued"}, lines...)
	case 9: // random bytes in a line
		b := make([]byte, r.Range(1, 12))
		for j := range b {
			b[j] = byte(r.Intn(256))
		}
		lines[r.Intn(len(lines))] = string(b)
	case 10: // empty name / empty parameter name
		lines[r.Intn(len(lines))] = r.Pick([]string{":v", ";=:v", "A;:v", "A;=", ";", ":", "A;B=\"", "A;B=\"\"\"", "A;B=c;", "A;B=c,", "A;B=,:", "A;B:=;"})
	default: // swap BEGIN/END names
		i := r.Intn(len(lines))
		lines[i] = strings.Replace(lines[i], "VEVENT", "VTODO", 1)
	}
	return strings.Join(lines, "\r\n") + "\r\n"
}

func famSrvObj(o *Out, r *RNG, thorough bool) {
	n := 4000
	if thorough {
		n = 80000
	}
	for i := 0; i < n; i++ {
		srv, doc := "cal", frontIcal
		if i%2 == 1 {
			srv, doc = "card", frontVcard
		}
		body := doc
		for k := r.Range(1, 3); k > 0; k-- {
			body = mutateObject(r, body)
		}
		q := frontReq{srv: srv, method: "PUT", level: 4, exists: false, ctype: "obj", body: "objbad", depth: "absent", ow: "absent", dst: "absent"}
		res := runFront(q, body)
		o.Stat("obj." + srv + "." + strings.Fields(res)[0])
		o.Emit("srv.obj", srv+" "+hx(body), res)
	}
}

// backend failures: every data call of the backend double fails with an HTTP error, a precondition error (409 with a
// DAV:error element) or a plain error; the answer must be complete and carry the backend's own status (500 for a
// plain error), and a precondition element must be served as a well-formed DAV:error document
func failError(kind string, card bool) error {
	switch kind {
	case "plain":
		return fmt.Errorf("backend exploded")
	case "precond":
		if card {
			return carddav.NewPreconditionError(carddav.PreconditionNoUIDConflict)
		}
		return caldav.NewPreconditionError(caldav.PreconditionNoUIDConflict)
	}
	var code int
	if strings.HasPrefix(kind, "wrap") {
		// an HTTP error wrapped by another layer of the backend carries the same status
		fmt.Sscanf(kind, "wrap%d", &code)
		return fmt.Errorf("storage layer: %w", webdav.NewHTTPError(code, fmt.Errorf("backend says no")))
	}
	fmt.Sscanf(kind, "http%d", &code)
	return webdav.NewHTTPError(code, fmt.Errorf("backend says no"))
}

func emitFail(o *Out, r *RNG, srv, method string, level int, depth, kind, report string) {
	q := frontReq{srv: srv, method: method, level: level, exists: true, ctype: "none", body: "empty", depth: depth, ow: "absent", dst: "absent"}
	if level == 3 && method == "MKCOL" {
		q.exists = false
	}
	var body string
	switch method {
	case "PUT":
		q.ctype, q.body = "obj", "objok"
		body = frontBody(q, r)
	case "PROPFIND":
		q.ctype, q.body = "xml", "valid"
		body = `<?xml version="1.0"?><D:propfind xmlns:D="DAV:"><D:allprop/></D:propfind>`
	case "REPORT":
		q.ctype, q.body = "xml", "valid"
		nsX, data, qname, mname := nsCal, "calendar-data", "calendar-query", "calendar-multiget"
		if srv == "card" {
			nsX, data, qname, mname = nsCard, "address-data", "addressbook-query", "addressbook-multiget"
		}
		if report == "multiget" {
			body = randStyle(r).doc(E(nsX, mname, E("DAV:", "prop", E("DAV:", "getetag"), E(nsX, data)), E("DAV:", "href").T(frontPath(frontReq{srv: srv, level: 4, exists: true}))))
		} else if srv == "card" {
			body = randStyle(r).doc(E(nsX, qname, E("DAV:", "prop", E("DAV:", "getetag")), E(nsX, "filter")))
		} else {
			body = randStyle(r).doc(E(nsX, qname, E("DAV:", "prop", E("DAV:", "getetag")), E(nsX, "filter", E(nsX, "comp-filter").A("name", "VCALENDAR"))))
		}
	}
	res := guard(func() string {
		req := httptest.NewRequest("GET", "http://example.com"+frontPath(q), strings.NewReader(body))
		req.Method = method
		frontHeaders(q, req.Header)
		rec := httptest.NewRecorder()
		fe := failError(kind, srv == "card")
		if srv == "cal" {
			(&caldav.Handler{Backend: &calBackend{principal: "/u/", homeSet: "/u/cal/", failWith: fe}}).ServeHTTP(rec, req)
		} else {
			(&carddav.Handler{Backend: &cardBackend{principal: "/u/", homeSet: "/u/ab/", failWith: fe}}).ServeHTTP(rec, req)
		}
		out := itoa(rec.Code)
		if rec.Code == 207 {
			// per-resource statuses of a multi-status
			t, err := treeOfBytes(rec.Body.Bytes())
			if err != nil {
				return "207-broken-body"
			}
			var sts []string
			for _, c := range t.children {
				if c.elem {
					pr := parseResponseNode(c)
					if pr.status != 0 {
						sts = append(sts, itoa(pr.status))
					}
				}
			}
			sort.Strings(sts)
			if len(sts) > 0 {
				out += " " + strings.Join(sts, ",")
			}
		} else if kind == "precond" && rec.Code == 409 {
			// the body must be a DAV:error document carrying the condition element
			t, err := treeOfBytes(rec.Body.Bytes())
			if err != nil || t.space != "DAV:" || t.local != "error" {
				return out + " no-error-document"
			}
			for _, c := range t.children {
				if c.elem {
					out += " " + c.local
				}
			}
		}
		return out
	})
	o.Emit("srv.fail", fmt.Sprintf("%s %s %d %s %s %s", srv, hx(method), level, depth, kind, report), res)
}

func famSrvFail(o *Out, r *RNG, thorough bool) {
	for _, srv := range []string{"cal", "card"} {
		for _, kind := range []string{"http403", "http404", "http409", "http423", "http507", "http503", "wrap403", "wrap507", "precond", "plain"} {
			for _, m := range []string{"OPTIONS", "GET", "HEAD", "PUT", "DELETE", "MKCOL", "PROPPATCH", "COPY"} {
				for lvl := 0; lvl <= 4; lvl++ {
					emitFail(o, r, srv, m, lvl, "absent", kind, "-")
				}
			}
			for lvl := 0; lvl <= 4; lvl++ {
				for _, d := range []string{"0", "1", "infinity"} {
					emitFail(o, r, srv, "PROPFIND", lvl, d, kind, "-")
				}
			}
			for _, rep := range []string{"query", "multiget"} {
				emitFail(o, r, srv, "REPORT", 3, "absent", kind, rep)
			}
		}
		// discovery: the well-known URL redirects to the principal, for every method
		for _, m := range []string{"GET", "PROPFIND", "OPTIONS", "PUT", "FOO"} {
			for _, principal := range []string{"/u/", "/dav/principals/me/", "/"} {
				res := guard(func() string {
					wk := "/.well-known/caldav"
					if srv == "card" {
						wk = "/.well-known/carddav"
					}
					req := httptest.NewRequest(m, "http://example.com"+wk, nil)
					rec := httptest.NewRecorder()
					if srv == "cal" {
						(&caldav.Handler{Backend: &calBackend{principal: principal, homeSet: principal + "cal/"}, Prefix: "/dav"}).ServeHTTP(rec, req)
					} else {
						(&carddav.Handler{Backend: &cardBackend{principal: principal, homeSet: principal + "ab/"}, Prefix: "/dav"}).ServeHTTP(rec, req)
					}
					return fmt.Sprintf("%d %s", rec.Code, hx(rec.Header().Get("Location")))
				})
				o.Emit("srv.wellknown", srv+" "+hx(m)+" "+hx(principal), res)
			}
		}
	}
}

func init() {
	families["srvfront"] = famSrvFront
	families["srvobj"] = famSrvObj
	families["srvfail"] = famSrvFail
}
