package main

import (
	"errors"
	"fmt"
	"net/http/httptest"
	"strings"

	"github.com/emersion/go-webdav/caldav"
	"github.com/emersion/go-webdav/carddav"

	webdav "github.com/emersion/go-webdav"
	"github.com/emersion/go-webdav/internal"
)

// C04: checkConditionalMatches / ConditionalMatch.MatchETag

func condVerdict(err error) string {
	if err == nil {
		return "proceed"
	}
	var he *internal.HTTPError
	if errors.As(err, &he) {
		return fmt.Sprint(he.Code)
	}
	return "other-error"
}

func emitCond(o *Out, exists bool, etag, im, inm string) {
	var fi *webdav.FileInfo
	st := "n"
	if exists {
		fi = &webdav.FileInfo{Path: "/f", ETag: etag}
		st = hx(etag)
	}
	res := guard(func() string {
		return condVerdict(webdav.VerifCheckConditionalMatches(fi, webdav.ConditionalMatch(im), webdav.ConditionalMatch(inm)))
	})
	o.Stat("cond." + res)
	o.Emit("cond", st+" "+sxRunes(im, false)+" "+sxRunes(inm, false), res)
}

func emitCondMatch(o *Out, v, etag string) {
	res := guard(func() string {
		ok, err := webdav.ConditionalMatch(v).MatchETag(etag)
		if err != nil {
			return "err"
		}
		return "ok " + b01(ok)
	})
	o.Emit("cond.match", sxRunes(v, false)+" "+hx(etag), res)
	// the other public helpers must agree with it
	cm := webdav.ConditionalMatch(v)
	if cm.IsSet() != (v != "") || cm.IsWildcard() != (v == "*") {
		o.Emit("cond.match", sxRunes(v, false)+" "+hx(etag), "helpers-disagree")
	}
}

// the CalDAV / CardDAV servers hand both header values to the backend unaltered: a PUT of a valid object with the
// two headers set, answered by a recording backend
func emitCondPass(o *Out, srv, im, inm string) {
	res := guard(func() string {
		var gotIM, gotINM string
		called := false
		rec := httptest.NewRecorder()
		switch srv {
		case "cal":
			req := httptest.NewRequest("PUT", "http://example.com/u/cal/a/n.ics", strings.NewReader(frontIcal))
			req.Header.Set("Content-Type", "text/calendar")
			setIfAny(req.Header, "If-Match", im)
			setIfAny(req.Header, "If-None-Match", inm)
			b := &calBackend{principal: "/u/", homeSet: "/u/cal/", calendars: []caldav.Calendar{{Path: "/u/cal/a/", Name: "A"}}}
			(&caldav.Handler{Backend: b}).ServeHTTP(rec, req)
			if b.lastPutOpt != nil {
				called, gotIM, gotINM = true, string(b.lastPutOpt.IfMatch), string(b.lastPutOpt.IfNoneMatch)
			}
		case "card":
			req := httptest.NewRequest("PUT", "http://example.com/u/ab/a/n.vcf", strings.NewReader(frontVcard))
			req.Header.Set("Content-Type", "text/vcard")
			setIfAny(req.Header, "If-Match", im)
			setIfAny(req.Header, "If-None-Match", inm)
			b := &cardBackend{principal: "/u/", homeSet: "/u/ab/", books: []carddav.AddressBook{{Path: "/u/ab/a/", Name: "A"}}}
			(&carddav.Handler{Backend: b}).ServeHTTP(rec, req)
			if b.lastPutOpt != nil {
				called, gotIM, gotINM = true, string(b.lastPutOpt.IfMatch), string(b.lastPutOpt.IfNoneMatch)
			}
		}
		if !called {
			return fmt.Sprintf("not-called %d", rec.Code)
		}
		return "got " + hx(gotIM) + " " + hx(gotINM)
	})
	o.Stat("cond.pass." + strings.Fields(res)[0])
	o.Emit("cond.pass", srv+" "+hx(im)+" "+hx(inm), res)
}

// the entity tag announced by PUT, GET, HEAD and PROPFIND for the same unmodified resource is one and the same string:
// a file server over a synthetic FileSystem whose tag is arbitrary; the four raw announcements are compared
func emitCondAnnounce(o *Out, tag string) {
	res := guard(func() string {
		fs := newMemFS()
		fs.putTag = tag
		h := &webdav.Handler{FileSystem: fs}
		do := func(method, body string, hdr map[string]string) *httptest.ResponseRecorder {
			req := httptest.NewRequest(method, "http://example.com/f.txt", strings.NewReader(body))
			for k, v := range hdr {
				req.Header.Set(k, v)
			}
			rec := httptest.NewRecorder()
			h.ServeHTTP(rec, req)
			return rec
		}
		put := do("PUT", "data", nil)
		get := do("GET", "", nil)
		head := do("HEAD", "", nil)
		pf := do("PROPFIND", `<?xml version="1.0"?><D:propfind xmlns:D="DAV:"><D:prop><D:getetag/></D:prop></D:propfind>`, map[string]string{"Content-Type": "application/xml", "Depth": "0"})
		getetag := "absent"
		if t, err := treeOfBytes(pf.Body.Bytes()); err == nil {
			var walk func(n *xNode)
			walk = func(n *xNode) {
				if n.elem && n.space == "DAV:" && n.local == "getetag" {
					getetag = "text:" + flatText(n)
				}
				for _, c := range n.children {
					walk(c)
				}
			}
			walk(t)
		}
		return fmt.Sprintf("%d %s %d %s %d %s %d %s", put.Code, hx(put.Header().Get("ETag")), get.Code, hx(get.Header().Get("ETag")),
			head.Code, hx(head.Header().Get("ETag")), pf.Code, hx(getetag))
	})
	o.Stat("cond.announce")
	o.Emit("cond.announce", hx(tag), res)
}

func setIfAny(h map[string][]string, k, v string) {
	if v != "" {
		h[k] = []string{v}
	}
}

func famCond(o *Out, r *RNG, thorough bool) {
	cur := "17c8a5e1b2c3d4e5f"
	q := func(s string) string { return internal.ETag(s).String() }
	headers := func(tag string) []string {
		return []string{"", "*", q(tag), q("stale0"), q(tag + "x"), q(""), tag, "'" + tag + "'", "`" + tag + "`", "\"" + tag, tag + "\"", "W/" + q(tag), " " + q(tag), q(tag) + " ", "\"\\x\"", "**", " *", "\"a\"b\"", "W/", "W", "\"", "W/\""}
	}
	for _, tag := range []string{cur, "a\"b", "é\\", "a b", "\xff"} {
		hs := headers(tag)
		for _, im := range hs {
			for _, inm := range hs {
				emitCond(o, false, "", im, inm)
				emitCond(o, true, tag, im, inm)
			}
			emitCondMatch(o, im, tag)
			emitCondMatch(o, im, "")
			for _, inm := range []string{"", "*", hs[2], hs[3]} {
				emitCondPass(o, "cal", im, inm)
				emitCondPass(o, "card", inm, im)
			}
			emitCondMatch(o, im, "other")
		}
	}
	for _, tag := range owETagPool {
		if tag != "" {
			emitCondAnnounce(o, tag)
		}
	}
	for i := 0; i < 300; i++ {
		if tag := randFrom(r, tagAlphabet, 6); tag != "" {
			emitCondAnnounce(o, tag)
		}
	}
	n := 3000
	if thorough {
		n = 60000
	}
	alpha := []string{"a", "b", "\"", "\\", "*", "'", " ", "é", "\xff", "x", "n", "1"}
	for i := 0; i < n; i++ {
		tag := randFrom(r, alpha[:9], 4)
		if tag == "" {
			tag = "t"
		}
		pick := func() string {
			switch r.Intn(6) {
			case 0:
				return ""
			case 1:
				return "*"
			case 2:
				return q(tag)
			case 3:
				return q(randFrom(r, alpha[:9], 4))
			case 4:
				return "\"" + randFrom(r, alpha, 5) + "\""
			}
			return randFrom(r, alpha, 5)
		}
		emitCond(o, r.Chance(75), tag, pick(), pick())
		emitCondMatch(o, pick(), tag)
		if i%4 == 0 {
			// header values with list syntax, commas inside a tag, padding
			wide := func() string {
				switch r.Intn(5) {
				case 0:
					return q(randFrom(r, alpha, 3) + "," + randFrom(r, alpha, 3))
				case 1:
					return q(randFrom(r, alpha, 3)) + ", " + q(randFrom(r, alpha, 3))
				case 2:
					return "W/" + q(tag) + " , *"
				case 3:
					return randFrom(r, append(alpha[:len(alpha):len(alpha)], ",", ";", "=", "W/"), 8)
				}
				return pick()
			}
			emitCondPass(o, r.Pick([]string{"cal", "card"}), wide(), wide())
		}
	}
}

func init() { families["cond"] = famCond }
