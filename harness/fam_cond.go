package main

import (
	"errors"
	"fmt"

	webdav "github.com/emersion/go-webdav"
	"github.com/emersion/go-webdav/internal"
)

// C04: checkConditionalMatches / ConditionalMatch.MatchETag

func condVerdict(err error) string {
	if err == nil {
		return "proceed"
	}
	var he *internal.HTTPError
	if errors.As(err, &he) {
		return fmt.Sprint(he.Code)
	}
	return "other-error"
}

func emitCond(o *Out, exists bool, etag, im, inm string) {
	var fi *webdav.FileInfo
	st := "n"
	if exists {
		fi = &webdav.FileInfo{Path: "/f", ETag: etag}
		st = hx(etag)
	}
	res := guard(func() string {
		return condVerdict(webdav.VerifCheckConditionalMatches(fi, webdav.ConditionalMatch(im), webdav.ConditionalMatch(inm)))
	})
	o.Stat("cond." + res)
	o.Emit("cond", st+" "+sxRunes(im, false)+" "+sxRunes(inm, false), res)
}

func emitCondMatch(o *Out, v, etag string) {
	res := guard(func() string {
		ok, err := webdav.ConditionalMatch(v).MatchETag(etag)
		if err != nil {
			return "err"
		}
		return "ok " + b01(ok)
	})
	o.Emit("cond.match", sxRunes(v, false)+" "+hx(etag), res)
	// the other public helpers must agree with it
	cm := webdav.ConditionalMatch(v)
	if cm.IsSet() != (v != "") || cm.IsWildcard() != (v == "*") {
		o.Emit("cond.match", sxRunes(v, false)+" "+hx(etag), "helpers-disagree")
	}
}

func famCond(o *Out, r *RNG, thorough bool) {
	cur := "17c8a5e1b2c3d4e5f"
	q := func(s string) string { return internal.ETag(s).String() }
	headers := func(tag string) []string {
		return []string{"", "*", q(tag), q("stale0"), q(tag + "x"), q(""), tag, "'" + tag + "'", "`" + tag + "`", "\"" + tag, tag + "\"", "W/" + q(tag), " " + q(tag), q(tag) + " ", "\"\\x\"", "**", " *", "\"a\"b\""}
	}
	for _, tag := range []string{cur, "a\"b", "é\\", "a b", "\xff"} {
		hs := headers(tag)
		for _, im := range hs {
			for _, inm := range hs {
				emitCond(o, false, "", im, inm)
				emitCond(o, true, tag, im, inm)
			}
			emitCondMatch(o, im, tag)
			emitCondMatch(o, im, "")
			emitCondMatch(o, im, "other")
		}
	}
	n := 3000
	if thorough {
		n = 60000
	}
	alpha := []string{"a", "b", "\"", "\\", "*", "'", " ", "é", "\xff", "x", "n", "1"}
	for i := 0; i < n; i++ {
		tag := randFrom(r, alpha[:9], 4)
		if tag == "" {
			tag = "t"
		}
		pick := func() string {
			switch r.Intn(6) {
			case 0:
				return ""
			case 1:
				return "*"
			case 2:
				return q(tag)
			case 3:
				return q(randFrom(r, alpha[:9], 4))
			case 4:
				return "\"" + randFrom(r, alpha, 5) + "\""
			}
			return randFrom(r, alpha, 5)
		}
		emitCond(o, r.Chance(75), tag, pick(), pick())
		emitCondMatch(o, pick(), tag)
	}
}

func init() { families["cond"] = famCond }
