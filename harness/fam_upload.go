package main

import (
	"bytes"
	"context"
	"errors"
	"fmt"
	"io"
	"net/http"
	"net/http/httptest"
	"os"
	"runtime"
	"sort"
	"strings"
	"sync"
	"time"

	webdav "github.com/emersion/go-webdav"
	"github.com/emersion/go-webdav/internal"
)

// C18: streamed upload fault matrix and concurrent use (validation of the LTS and of statelessness)

func uploadScenario(fault string, size int, chunk int) string {
	var mu sync.Mutex
	release := make(chan struct{})
	ts := httptest.NewServer(http.HandlerFunc(func(w http.ResponseWriter, r *http.Request) {
		switch fault {
		case "ok":
			io.Copy(io.Discard, r.Body)
			w.WriteHeader(http.StatusCreated)
		case "early":
			w.WriteHeader(http.StatusPreconditionFailed)
		case "early2xx":
			w.WriteHeader(http.StatusCreated)
		case "early308":
			// a redirect the transport cannot follow (the streamed body cannot be replayed): the 3xx answer comes back
			w.Header().Set("Location", "/elsewhere/f")
			w.WriteHeader(http.StatusPermanentRedirect)
		case "late300":
			io.Copy(io.Discard, r.Body)
			w.WriteHeader(http.StatusMultipleChoices)
		case "early2xx-stall":
			// the answer's header block goes out at once, then the server neither reads the body nor finishes the
			// response until the client goes away
			w.WriteHeader(http.StatusCreated)
			if f, ok := w.(http.Flusher); ok {
				f.Flush()
			}
			select {
			case <-release:
			case <-r.Context().Done():
			case <-time.After(30 * time.Second):
			}
		case "partial":
			io.CopyN(io.Discard, r.Body, int64(size/2))
			w.WriteHeader(http.StatusInsufficientStorage)
		case "partial-json", "partial-bin":
			// a refusal whose body is neither XML nor text: the client must still release the connection
			io.CopyN(io.Discard, r.Body, int64(size/2))
			if fault == "partial-json" {
				w.Header().Set("Content-Type", "application/json")
			} else {
				w.Header().Set("Content-Type", "application/octet-stream")
			}
			w.WriteHeader(http.StatusInsufficientStorage)
			w.Write([]byte(`{"error":"quota exceeded","detail":"` + strings.Repeat("x", 3000) + `"}`))
		case "early-text-endless", "partial-text-endless":
			// a refusal with a plain-text explanation that never ends: a kilobyte and more goes out, then the server keeps
			// the response open; the client has the status and all of the text it keeps, and must not wait for the rest
			if fault == "partial-text-endless" {
				io.CopyN(io.Discard, r.Body, int64(size/2))
				w.Header().Set("Content-Type", "text/plain; charset=utf-8")
			}
			w.WriteHeader(http.StatusInsufficientStorage)
			w.Write([]byte(strings.Repeat("quota exceeded, and a long story about it. ", 60)))
			if f, ok := w.(http.Flusher); ok {
				f.Flush()
			}
			select {
			case <-release:
			case <-r.Context().Done():
			case <-time.After(30 * time.Second):
			}
		case "drop":
			io.CopyN(io.Discard, r.Body, int64(size/3))
			if hj, ok := w.(http.Hijacker); ok {
				c, _, err := hj.Hijack()
				if err == nil {
					c.Close()
				}
			}
		case "stall":
			select {
			case <-release:
			case <-r.Context().Done():
			case <-time.After(5 * time.Second):
			}
		}
		mu.Lock()
		mu.Unlock()
	}))
	defer func() {
		close(release)
		ts.CloseClientConnections()
		ts.Close()
	}()
	// one connection per host: a connection the library fails to release blocks the next request
	hc := &http.Client{Transport: &http.Transport{MaxConnsPerHost: 1}}
	defer hc.Transport.(*http.Transport).CloseIdleConnections()
	c, err := webdav.NewClient(hc, ts.URL)
	if err != nil {
		return "setup-error"
	}
	ctx, cancel := context.WithCancel(context.Background())
	defer cancel()
	if fault == "stall" {
		time.AfterFunc(150*time.Millisecond, cancel)
	}
	before := runtime.NumGoroutine()
	result := make(chan string, 1)
	go func() {
		w, err := c.Create(ctx, "/f")
		if err != nil {
			result <- "create-error"
			return
		}
		data := bytes.Repeat([]byte("x"), chunk)
		remaining := size
		for remaining > 0 {
			n := chunk
			if n > remaining {
				n = remaining
			}
			if _, err := w.Write(data[:n]); err != nil {
				// the caller carries on to Close, as a careless caller would
				break
			}
			remaining -= n
		}
		if err := w.Close(); err != nil {
			// the failure Close reports must be the server's answer when there was one
			var he *internal.HTTPError
			if errors.As(err, &he) {
				result <- fmt.Sprintf("closed http-%d", he.Code)
			} else {
				result <- "closed other"
			}
		} else {
			result <- "closed nil"
		}
	}()
	var res string
	watchdog := 15 * time.Second
	if fault == "early2xx-stall" || strings.HasSuffix(fault, "-text-endless") {
		watchdog = 6 * time.Second // the answer is there from the start: Close has nothing to wait for
	}
	select {
	case res = <-result:
	case <-time.After(watchdog):
		return "hang"
	}
	// after a refused upload the same client must still be usable (the connection was released)
	if strings.HasPrefix(fault, "partial") || fault == "early" {
		again := make(chan string, 1)
		go func() {
			w, err := c.Create(context.Background(), "/g")
			if err != nil {
				again <- "create-error"
				return
			}
			w.Write([]byte("0123456789"))
			w.Close()
			again <- "done"
		}()
		select {
		case <-again:
		case <-time.After(5 * time.Second):
			return "second-upload-hangs"
		}
	}
	// no goroutine of the library may outlive the upload
	hc.Transport.(*http.Transport).CloseIdleConnections()
	leak := "1"
	for i := 0; i < 100; i++ {
		if runtime.NumGoroutine() <= before+1 {
			leak = "0"
			break
		}
		time.Sleep(10 * time.Millisecond)
	}
	if leak == "1" {
		// distinguish library goroutines from net/http housekeeping
		buf := make([]byte, 1<<20)
		n := runtime.Stack(buf, true)
		// library goroutines, and transport goroutines kept alive by a response body the library never closed
		// (CloseIdleConnections above ends every connection that was released)
		st := string(buf[:n])
		if !strings.Contains(st, "go-webdav.(*Client).Create") && !strings.Contains(st, "net/http.(*persistConn).readLoop") {
			leak = "0"
		}
	}
	return res + " " + leak
}

func famUpload(o *Out, r *RNG, thorough bool) {
	sizes := []int{0, 4096, 5 << 20, 16 << 20}
	for _, fault := range []string{"ok", "early", "early2xx", "early2xx-stall", "early308", "late300", "partial", "partial-json", "partial-bin", "early-text-endless", "partial-text-endless", "drop", "stall"} {
		for _, size := range sizes {
			chunks := []int{64 << 10}
			if size == 4096 {
				chunks = []int{4096, 1, 1000}
			}
			if size >= 5<<20 && thorough {
				chunks = []int{64 << 10, 5 << 20, 4097}
			}
			for _, ch := range chunks {
				reps := 1
				if thorough {
					reps = 5
				}
				for i := 0; i < reps; i++ {
					res := uploadScenario(fault, size, ch)
					o.Stat("upload." + fault + "." + strings.Replace(res, " ", "-", -1))
					o.Emit("up", fmt.Sprintf("%s %d %d", fault, size, ch), res)
				}
			}
		}
	}
}

// N clients x M operations on disjoint subtrees, one shared handler and one shared client
func concurrentRun(n, m int, seed uint64) string {
	tmp := os.TempDir()
	if st, err := os.Stat("/dev/shm"); err == nil && st.IsDir() {
		tmp = "/dev/shm"
	}
	dir, err := os.MkdirTemp(tmp, fmt.Sprintf("verif-fs-%d-conc-", os.Getpid()))
	if err != nil {
		return "setup-error"
	}
	defer os.RemoveAll(dir)
	h := &webdav.Handler{FileSystem: webdav.LocalFileSystem(dir)}
	ts := httptest.NewServer(h)
	defer ts.Close()
	c, err := webdav.NewClient(ts.Client(), ts.URL)
	if err != nil {
		return "setup-error"
	}
	ctx := context.Background()
	script := func(i int, log *[]string) {
		base := fmt.Sprintf("/w%d", i)
		rec := func(op string, err error) {
			e := "ok"
			if err != nil {
				e = "err"
			}
			*log = append(*log, op+":"+e)
		}
		rec("mkdir", c.Mkdir(ctx, base))
		for k := 0; k < m; k++ {
			name := fmt.Sprintf("%s/f%d", base, k)
			w, err := c.Create(ctx, name)
			if err == nil {
				_, err = w.Write([]byte(fmt.Sprintf("content-%d", k)))
				if cerr := w.Close(); err == nil {
					err = cerr
				}
			}
			rec("create", err)
			fi, err := c.Stat(ctx, name)
			if err == nil {
				*log = append(*log, fmt.Sprintf("size:%d", fi.Size))
			}
			rec("stat", err)
			rec("copy", c.Copy(ctx, name, name+".copy", nil))
			rec("move", c.Move(ctx, name+".copy", name+".moved", nil))
			if k%2 == 1 {
				rec("remove", c.RemoveAll(ctx, name))
			}
			rd, err := c.Open(ctx, name+".moved")
			if err == nil {
				b, _ := io.ReadAll(rd)
				rd.Close()
				*log = append(*log, "read:"+string(b))
			}
			rec("open", err)
		}
		l, err := c.ReadDir(ctx, base, true)
		if err == nil {
			var names []string
			for _, fi := range l {
				names = append(names, fi.Path)
			}
			sort.Strings(names)
			*log = append(*log, "list:"+strings.Join(names, ","))
		}
		rec("readdir", err)
	}
	// expected: the same scripts run one after the other in a fresh directory of their own
	logs := make([][]string, n)
	var wg sync.WaitGroup
	for i := 0; i < n; i++ {
		wg.Add(1)
		go func(i int) {
			defer wg.Done()
			script(i, &logs[i])
		}(i)
	}
	wg.Wait()
	// sequential replay in other subtrees (w100+i) with names mapped back
	for i := 0; i < n; i++ {
		var seq []string
		func() {
			// same script on a different, fresh subtree
			j := i + 1000
			old := fmt.Sprintf("/w%d", j)
			var log []string
			scriptFor := func() {
				// rebind by running the script with index j and rewriting names
				script(j, &log)
			}
			scriptFor()
			for _, l := range log {
				seq = append(seq, strings.Replace(l, old, fmt.Sprintf("/w%d", i), -1))
			}
		}()
		if strings.Join(seq, "|") != strings.Join(logs[i], "|") {
			return fmt.Sprintf("differ(worker %d)", i)
		}
	}
	return "agree"
}

// a streamed upload that is still open (Create and a Write done, Close not yet called) must not hold up a request on
// an unrelated resource: the small upload gets the answer it gets alone, promptly
func openUploadRun() string {
	tmp := os.TempDir()
	if st, err := os.Stat("/dev/shm"); err == nil && st.IsDir() {
		tmp = "/dev/shm"
	}
	dir, err := os.MkdirTemp(tmp, fmt.Sprintf("verif-fs-%d-open-", os.Getpid()))
	if err != nil {
		return "setup-error"
	}
	defer os.RemoveAll(dir)
	h := &webdav.Handler{FileSystem: webdav.LocalFileSystem(dir)}
	ts := httptest.NewServer(h)
	defer ts.Close()
	c, err := webdav.NewClient(ts.Client(), ts.URL)
	if err != nil {
		return "setup-error"
	}
	ctx := context.Background()
	if c.Mkdir(ctx, "/c1") != nil || c.Mkdir(ctx, "/c2") != nil {
		return "setup-error"
	}
	big, err := c.Create(ctx, "/c1/big")
	if err != nil {
		return "setup-error"
	}
	if _, err := big.Write(bytes.Repeat([]byte("A"), 64<<10)); err != nil {
		return "setup-error"
	}
	time.Sleep(50 * time.Millisecond) // let the server start on the open upload
	done := make(chan error, 1)
	go func() {
		cctx, cancel := context.WithTimeout(ctx, 4*time.Second)
		defer cancel()
		w, err := c.Create(cctx, "/c2/small")
		if err == nil {
			_, err = w.Write([]byte("small"))
			if cerr := w.Close(); err == nil {
				err = cerr
			}
		}
		done <- err
	}()
	res := "agree"
	select {
	case err := <-done:
		if err != nil {
			res = "blocked-by-open-upload"
		}
	case <-time.After(6 * time.Second):
		res = "blocked-by-open-upload"
	}
	big.Close()
	if res == "agree" {
		if rd, err := c.Open(ctx, "/c2/small"); err == nil {
			b, _ := io.ReadAll(rd)
			rd.Close()
			if string(b) != "small" {
				res = "differ(content)"
			}
		} else {
			res = "differ(missing)"
		}
	}
	return res
}

func famConcur(o *Out, r *RNG, thorough bool) {
	for i := 0; i < 2; i++ {
		res := guard(openUploadRun)
		o.Stat("concur.open-upload." + res)
		o.Emit("conc", "open-upload 1 1", res)
	}
	rounds := 3
	if thorough {
		rounds = 30
	}
	for i := 0; i < rounds; i++ {
		n, m := 8, 4
		if thorough {
			n, m = 16, 6
		}
		prev := runtime.GOMAXPROCS(0)
		if i%3 == 1 {
			runtime.GOMAXPROCS(2)
		} else if i%3 == 2 {
			runtime.GOMAXPROCS(1)
		}
		res := guard(func() string { return concurrentRun(n, m, r.Next()) })
		runtime.GOMAXPROCS(prev)
		o.Stat("concur." + res)
		o.Emit("conc", fmt.Sprintf("disjoint-subtrees %d %d", n, m), res)
	}
}

func init() {
	families["upload"] = famUpload
	families["concur"] = famConcur
}
