package main

import (
	"errors"
	"fmt"
	"path"

	webdav "github.com/emersion/go-webdav"
	"github.com/emersion/go-webdav/caldav"
	"github.com/emersion/go-webdav/carddav"
	"github.com/emersion/go-webdav/internal"
)

// C03 (path mapping) and C12 (depth classification)

func emitClean(o *Out, s string) { o.Emit("clean", hx(s), hx(path.Clean(s))) }

func emitLocalPath(o *Out, root, name string) {
	res := guard(func() string {
		p, err := webdav.VerifLocalPath(webdav.LocalFileSystem(root), name)
		if err != nil {
			var he *internal.HTTPError
			if errors.As(err, &he) {
				return fmt.Sprint(he.Code)
			}
			return "other-error"
		}
		return "ok " + hx(p)
	})
	if res == "400" {
		o.Stat("localpath.refused")
	} else {
		o.Stat("localpath.mapped")
	}
	o.Emit("localpath", hx(root)+" "+hx(name), res)
}

func emitExtPath(o *Out, root, host string) {
	res := guard(func() string {
		p, err := webdav.VerifExternalPath(webdav.LocalFileSystem(root), host)
		if err != nil {
			return "err"
		}
		return "ok " + hx(p)
	})
	o.Emit("extpath", hx(root)+" "+hx(host), res)
}

func enumStrings(alpha []string, maxLen int, f func(string)) {
	var rec func(prefix string, n int)
	rec = func(prefix string, n int) {
		f(prefix)
		if n == maxLen {
			return
		}
		for _, a := range alpha {
			rec(prefix+a, n+1)
		}
	}
	rec("", 0)
}

func famPath(o *Out, r *RNG, thorough bool) {
	roots := []string{"/srv/dav", "/", "/r"}
	maxLen := 6
	if thorough {
		maxLen = 8
	}
	// every string over {/, ., a, NUL} up to maxLen
	enumStrings([]string{"/", ".", "a", "\x00"}, maxLen, func(s string) {
		emitClean(o, s)
		emitLocalPath(o, roots[len(s)%len(roots)], s)
	})
	// traversal grammar
	parts := []string{"..", ".", "", "a", "b c", "%2e%2e", "%2f", "\\", "..\\", "\x00", "é", "...", ".a", "a.", "..a", "~", "*", "%", "a\nb", "\xff"}
	for _, root := range roots {
		for _, a := range parts {
			for _, b := range parts {
				for _, c := range parts {
					if !thorough && (len(a)+len(b)*3+len(c)*5)%4 != 0 {
						continue
					}
					emitLocalPath(o, root, "/"+a+"/"+b+"/"+c)
					emitLocalPath(o, root, a+"/"+b+"/"+c+"/")
				}
			}
		}
	}
	n := 20000
	if thorough {
		n = 500000
	}
	alpha := []string{"/", "/", ".", "..", "a", "b", "\x00", "\\", "%", " ", "é", "\xff", "//", "/../", "/./"}
	for i := 0; i < n; i++ {
		s := randFrom(r, alpha, 9)
		if r.Chance(70) {
			s = "/" + s
		}
		emitLocalPath(o, roots[r.Intn(len(roots))], s)
		if i%10 == 0 {
			emitClean(o, s)
		}
	}
	// reported paths
	names := []string{"a", "b c", "é", "a#b", "x?y", "%41", ".hidden", "a;b", "+", "..."}
	for _, root := range roots {
		emitExtPath(o, root, root)
		for _, a := range names {
			emitExtPath(o, root, path.Join(root, a))
			for _, b := range names {
				emitExtPath(o, root, path.Join(root, a, b))
			}
		}
	}
}

func emitRType(o *Out, prefix, p string) {
	a := guard(func() string { return fmt.Sprint(caldav.VerifResourceTypeAtPath(prefix, p)) })
	b := guard(func() string { return fmt.Sprint(carddav.VerifResourceTypeAtPath(prefix, p)) })
	res := a
	if a != b {
		res = "caldav=" + a + ",carddav=" + b
	}
	o.Stat("rtype." + res)
	o.Emit("rtype", hx(prefix)+" "+hx(p), res)
}

func famRType(o *Out, r *RNG, thorough bool) {
	segs := []string{"dav", "davx", "d", "u", "cal", "a b", "é", "x.y", "...", "~u", "%41", "a:b"}
	var prefixes []string
	prefixes = append(prefixes, "")
	for _, a := range segs {
		prefixes = append(prefixes, "/"+a)
		for _, b := range segs[:6] {
			prefixes = append(prefixes, "/"+a+"/"+b)
			if thorough {
				for _, c := range segs[:4] {
					prefixes = append(prefixes, "/"+a+"/"+b+"/"+c)
				}
			}
		}
	}
	prefixes = append(prefixes, "/dav/dav", "/dav/dav/dav")
	for _, pre := range prefixes {
		below := ""
		for depth := 0; depth <= 5; depth++ {
			for _, slash := range []string{"", "/"} {
				p := pre + below + slash
				if p == "" {
					continue
				}
				emitRType(o, pre, p)
			}
			below += "/" + segs[(depth*5+len(pre))%len(segs)]
		}
		// unclean spellings and siblings of the prefix
		emitRType(o, pre, pre+"//u///cal/")
		emitRType(o, pre, pre+"/u/./cal/../cal2")
		emitRType(o, pre, pre+"x/u")
		emitRType(o, pre, "/other/u")
		emitRType(o, pre, "/")
	}
	n := 5000
	if thorough {
		n = 100000
	}
	for i := 0; i < n; i++ {
		pre := ""
		for j := r.Range(0, 3); j > 0; j-- {
			pre += "/" + r.Pick(segs)
		}
		p := pre
		if r.Chance(10) {
			p = ""
		}
		for j := r.Range(0, 6); j > 0; j-- {
			p += "/" + r.Pick(append(segs, "", ".", ".."))
		}
		if r.Chance(40) {
			p += "/"
		}
		if p == "" {
			p = "/"
		}
		emitRType(o, pre, p)
	}
}

func init() {
	families["path"] = famPath
	families["rtype"] = famRType
}
