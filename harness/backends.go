package main

import (
	"context"
	"fmt"
	"sync"
	"time"

	"github.com/emersion/go-ical"
	"github.com/emersion/go-vcard"
	"github.com/emersion/go-webdav/caldav"
	"github.com/emersion/go-webdav/carddav"
	"github.com/emersion/go-webdav/internal"
)

// Recording doubles of the CalDAV and CardDAV backends (used by several families).

type callLog struct {
	mu    sync.Mutex
	calls []string
}

func (l *callLog) add(format string, a ...interface{}) {
	l.mu.Lock()
	l.calls = append(l.calls, fmt.Sprintf(format, a...))
	l.mu.Unlock()
}
func (l *callLog) take() []string {
	l.mu.Lock()
	defer l.mu.Unlock()
	c := l.calls
	l.calls = nil
	return c
}

type calBackend struct {
	log        callLog
	principal  string
	homeSet    string
	calendars  []caldav.Calendar
	objects    map[string][]caldav.CalendarObject // by calendar path
	failWith   error                              // every data call fails with it
	getErr     map[string]error                   // per object path
	lastQuery  *caldav.CalendarQuery
	lastGetReq *caldav.CalendarCompRequest
	lastPut    *ical.Calendar
	lastPutOpt *caldav.PutCalendarObjectOptions
	putResult  *caldav.CalendarObject
	panicOn    string
}

func (b *calBackend) CurrentUserPrincipal(ctx context.Context) (string, error) {
	return b.principal, nil
}
func (b *calBackend) CalendarHomeSetPath(ctx context.Context) (string, error) { return b.homeSet, nil }
func (b *calBackend) CreateCalendar(ctx context.Context, c *caldav.Calendar) error {
	b.log.add("CreateCalendar %s %s", hx(c.Path), hx(c.Name))
	return b.failWith
}
func (b *calBackend) ListCalendars(ctx context.Context) ([]caldav.Calendar, error) {
	b.log.add("ListCalendars")
	if b.failWith != nil {
		return nil, b.failWith
	}
	return b.calendars, nil
}
func (b *calBackend) GetCalendar(ctx context.Context, path string) (*caldav.Calendar, error) {
	b.log.add("GetCalendar %s", hx(path))
	if b.failWith != nil {
		return nil, b.failWith
	}
	for i := range b.calendars {
		if b.calendars[i].Path == path {
			return &b.calendars[i], nil
		}
	}
	return nil, internal.HTTPErrorf(404, "calendar not found")
}
func (b *calBackend) GetCalendarObject(ctx context.Context, path string, req *caldav.CalendarCompRequest) (*caldav.CalendarObject, error) {
	b.log.add("GetCalendarObject %s", hx(path))
	b.lastGetReq = req
	if b.failWith != nil {
		return nil, b.failWith
	}
	if e, ok := b.getErr[path]; ok {
		return nil, e
	}
	for _, l := range b.objects {
		for i := range l {
			if l[i].Path == path {
				return &l[i], nil
			}
		}
	}
	return nil, internal.HTTPErrorf(404, "object not found")
}
func (b *calBackend) ListCalendarObjects(ctx context.Context, path string, req *caldav.CalendarCompRequest) ([]caldav.CalendarObject, error) {
	b.log.add("ListCalendarObjects %s", hx(path))
	if b.failWith != nil {
		return nil, b.failWith
	}
	return b.objects[path], nil
}
func (b *calBackend) QueryCalendarObjects(ctx context.Context, path string, q *caldav.CalendarQuery) ([]caldav.CalendarObject, error) {
	b.log.add("QueryCalendarObjects %s", hx(path))
	b.lastQuery = q
	if b.failWith != nil {
		return nil, b.failWith
	}
	return caldav.Filter(q, b.objects[path])
}
func (b *calBackend) PutCalendarObject(ctx context.Context, path string, cal *ical.Calendar, opts *caldav.PutCalendarObjectOptions) (*caldav.CalendarObject, error) {
	b.log.add("PutCalendarObject %s", hx(path))
	if cal == nil {
		b.log.add("NilObject")
	}
	b.lastPut, b.lastPutOpt = cal, opts
	if b.failWith != nil {
		return nil, b.failWith
	}
	if b.putResult != nil {
		return b.putResult, nil
	}
	return &caldav.CalendarObject{Path: path, ETag: "put-etag", ModTime: time.Unix(1710032400, 0)}, nil
}
func (b *calBackend) DeleteCalendarObject(ctx context.Context, path string) error {
	b.log.add("DeleteCalendarObject %s", hx(path))
	return b.failWith
}

type cardBackend struct {
	log        callLog
	principal  string
	homeSet    string
	books      []carddav.AddressBook
	objects    map[string][]carddav.AddressObject
	failWith   error
	getErr     map[string]error
	lastQuery  *carddav.AddressBookQuery
	lastGetReq *carddav.AddressDataRequest
	lastPut    vcard.Card
	lastPutOpt *carddav.PutAddressObjectOptions
	putResult  *carddav.AddressObject
}

func (b *cardBackend) CurrentUserPrincipal(ctx context.Context) (string, error) {
	return b.principal, nil
}
func (b *cardBackend) AddressBookHomeSetPath(ctx context.Context) (string, error) {
	return b.homeSet, nil
}
func (b *cardBackend) ListAddressBooks(ctx context.Context) ([]carddav.AddressBook, error) {
	b.log.add("ListAddressBooks")
	if b.failWith != nil {
		return nil, b.failWith
	}
	return b.books, nil
}
func (b *cardBackend) GetAddressBook(ctx context.Context, path string) (*carddav.AddressBook, error) {
	b.log.add("GetAddressBook %s", hx(path))
	if b.failWith != nil {
		return nil, b.failWith
	}
	for i := range b.books {
		if b.books[i].Path == path {
			return &b.books[i], nil
		}
	}
	return nil, internal.HTTPErrorf(404, "address book not found")
}
func (b *cardBackend) CreateAddressBook(ctx context.Context, ab *carddav.AddressBook) error {
	b.log.add("CreateAddressBook %s %s %s", hx(ab.Path), hx(ab.Name), hx(ab.Description))
	return b.failWith
}
func (b *cardBackend) DeleteAddressBook(ctx context.Context, path string) error {
	b.log.add("DeleteAddressBook %s", hx(path))
	return b.failWith
}
func (b *cardBackend) GetAddressObject(ctx context.Context, path string, req *carddav.AddressDataRequest) (*carddav.AddressObject, error) {
	b.log.add("GetAddressObject %s", hx(path))
	b.lastGetReq = req
	if b.failWith != nil {
		return nil, b.failWith
	}
	if e, ok := b.getErr[path]; ok {
		return nil, e
	}
	for _, l := range b.objects {
		for i := range l {
			if l[i].Path == path {
				return &l[i], nil
			}
		}
	}
	return nil, internal.HTTPErrorf(404, "object not found")
}
func (b *cardBackend) ListAddressObjects(ctx context.Context, path string, req *carddav.AddressDataRequest) ([]carddav.AddressObject, error) {
	b.log.add("ListAddressObjects %s", hx(path))
	if b.failWith != nil {
		return nil, b.failWith
	}
	return b.objects[path], nil
}
func (b *cardBackend) QueryAddressObjects(ctx context.Context, path string, q *carddav.AddressBookQuery) ([]carddav.AddressObject, error) {
	b.log.add("QueryAddressObjects %s", hx(path))
	b.lastQuery = q
	if b.failWith != nil {
		return nil, b.failWith
	}
	return carddav.Filter(q, b.objects[path])
}
func (b *cardBackend) PutAddressObject(ctx context.Context, path string, card vcard.Card, opts *carddav.PutAddressObjectOptions) (*carddav.AddressObject, error) {
	b.log.add("PutAddressObject %s", hx(path))
	if card == nil {
		b.log.add("NilObject")
	}
	b.lastPut, b.lastPutOpt = card, opts
	if b.failWith != nil {
		return nil, b.failWith
	}
	if b.putResult != nil {
		return b.putResult, nil
	}
	return &carddav.AddressObject{Path: path, ETag: "put-etag", ModTime: time.Unix(1710032400, 0)}, nil
}
func (b *cardBackend) DeleteAddressObject(ctx context.Context, path string) error {
	b.log.add("DeleteAddressObject %s", hx(path))
	return b.failWith
}

func simpleCal(uid, summary string) *ical.Calendar {
	cal := ical.NewCalendar()
	cal.Props.SetText(ical.PropVersion, "2.0")
	cal.Props.SetText(ical.PropProductID, "-//verif//EN")
	ev := ical.NewEvent()
	ev.Props.SetText(ical.PropUID, uid)
	ev.Props.SetDateTime(ical.PropDateTimeStamp, time.Unix(1710032400, 0).UTC())
	ev.Props.SetDateTime(ical.PropDateTimeStart, time.Unix(1710032400, 0).UTC())
	ev.Props.SetText(ical.PropSummary, summary)
	cal.Children = append(cal.Children, ev.Component)
	return cal
}

func simpleCard(fn string) vcard.Card {
	c := make(vcard.Card)
	c.SetValue(vcard.FieldVersion, "4.0")
	c.SetValue(vcard.FieldFormattedName, fn)
	return c
}

// ---- one handler, several users: the backend answers for the user found in the request context (what a real
// multi-user deployment does); anything a handler remembers from one user's request shows in the next user's answer

type userKey struct{}

func withUser(ctx context.Context, u string) context.Context {
	return context.WithValue(ctx, userKey{}, u)
}

type multiCal struct{ users map[string]*calBackend }

func (m *multiCal) of(ctx context.Context) *calBackend {
	u, _ := ctx.Value(userKey{}).(string)
	return m.users[u]
}
func (m *multiCal) CurrentUserPrincipal(ctx context.Context) (string, error) {
	return m.of(ctx).CurrentUserPrincipal(ctx)
}
func (m *multiCal) CalendarHomeSetPath(ctx context.Context) (string, error) {
	return m.of(ctx).CalendarHomeSetPath(ctx)
}
func (m *multiCal) CreateCalendar(ctx context.Context, c *caldav.Calendar) error {
	return m.of(ctx).CreateCalendar(ctx, c)
}
func (m *multiCal) ListCalendars(ctx context.Context) ([]caldav.Calendar, error) {
	return m.of(ctx).ListCalendars(ctx)
}
func (m *multiCal) GetCalendar(ctx context.Context, path string) (*caldav.Calendar, error) {
	return m.of(ctx).GetCalendar(ctx, path)
}
func (m *multiCal) GetCalendarObject(ctx context.Context, path string, req *caldav.CalendarCompRequest) (*caldav.CalendarObject, error) {
	return m.of(ctx).GetCalendarObject(ctx, path, req)
}
func (m *multiCal) ListCalendarObjects(ctx context.Context, path string, req *caldav.CalendarCompRequest) ([]caldav.CalendarObject, error) {
	return m.of(ctx).ListCalendarObjects(ctx, path, req)
}
func (m *multiCal) QueryCalendarObjects(ctx context.Context, path string, q *caldav.CalendarQuery) ([]caldav.CalendarObject, error) {
	return m.of(ctx).QueryCalendarObjects(ctx, path, q)
}
func (m *multiCal) PutCalendarObject(ctx context.Context, path string, cal *ical.Calendar, opts *caldav.PutCalendarObjectOptions) (*caldav.CalendarObject, error) {
	return m.of(ctx).PutCalendarObject(ctx, path, cal, opts)
}
func (m *multiCal) DeleteCalendarObject(ctx context.Context, path string) error {
	return m.of(ctx).DeleteCalendarObject(ctx, path)
}

type multiCard struct{ users map[string]*cardBackend }

func (m *multiCard) of(ctx context.Context) *cardBackend {
	u, _ := ctx.Value(userKey{}).(string)
	return m.users[u]
}
func (m *multiCard) CurrentUserPrincipal(ctx context.Context) (string, error) {
	return m.of(ctx).CurrentUserPrincipal(ctx)
}
func (m *multiCard) AddressBookHomeSetPath(ctx context.Context) (string, error) {
	return m.of(ctx).AddressBookHomeSetPath(ctx)
}
func (m *multiCard) ListAddressBooks(ctx context.Context) ([]carddav.AddressBook, error) {
	return m.of(ctx).ListAddressBooks(ctx)
}
func (m *multiCard) GetAddressBook(ctx context.Context, path string) (*carddav.AddressBook, error) {
	return m.of(ctx).GetAddressBook(ctx, path)
}
func (m *multiCard) CreateAddressBook(ctx context.Context, ab *carddav.AddressBook) error {
	return m.of(ctx).CreateAddressBook(ctx, ab)
}
func (m *multiCard) DeleteAddressBook(ctx context.Context, path string) error {
	return m.of(ctx).DeleteAddressBook(ctx, path)
}
func (m *multiCard) GetAddressObject(ctx context.Context, path string, req *carddav.AddressDataRequest) (*carddav.AddressObject, error) {
	return m.of(ctx).GetAddressObject(ctx, path, req)
}
func (m *multiCard) ListAddressObjects(ctx context.Context, path string, req *carddav.AddressDataRequest) ([]carddav.AddressObject, error) {
	return m.of(ctx).ListAddressObjects(ctx, path, req)
}
func (m *multiCard) QueryAddressObjects(ctx context.Context, path string, q *carddav.AddressBookQuery) ([]carddav.AddressObject, error) {
	return m.of(ctx).QueryAddressObjects(ctx, path, q)
}
func (m *multiCard) PutAddressObject(ctx context.Context, path string, card vcard.Card, opts *carddav.PutAddressObjectOptions) (*carddav.AddressObject, error) {
	return m.of(ctx).PutAddressObject(ctx, path, card, opts)
}
func (m *multiCard) DeleteAddressObject(ctx context.Context, path string) error {
	return m.of(ctx).DeleteAddressObject(ctx, path)
}
