package main

import (
	"context"
	"encoding/json"
	"encoding/xml"
	"errors"
	"fmt"
	"io"
	"net/http"
	"strings"
	"time"

	webdav "github.com/emersion/go-webdav"
	"github.com/emersion/go-webdav/caldav"
	"github.com/emersion/go-webdav/carddav"
	"github.com/emersion/go-webdav/internal"
)

// C14: clients survive any response and report failures with their status

// a scripted HTTP client: answers every request with the same response
type scriptClient struct {
	status int
	ctype  string
	header http.Header
	body   string
	calls  int
}

func (c *scriptClient) Do(req *http.Request) (*http.Response, error) {
	c.calls++
	if req.Body != nil {
		io.Copy(io.Discard, req.Body)
		req.Body.Close()
	}
	h := http.Header{}
	for k, v := range c.header {
		h[k] = v
	}
	if c.ctype != "" {
		h.Set("Content-Type", c.ctype)
	}
	return &http.Response{StatusCode: c.status, Status: fmt.Sprintf("%d %s", c.status, http.StatusText(c.status)), Header: h,
		Body: io.NopCloser(strings.NewReader(c.body)), Request: req, ProtoMajor: 1, ProtoMinor: 1}, nil
}

var cliCTs = map[string]string{"absent": "", "xml": "application/xml; charset=utf-8", "textxml": "text/xml", "textOther": "text/html; charset=utf-8",
	"other": "application/json", "bad": "text/;;="}
var cliCTNames = []string{"absent", "xml", "textxml", "textOther", "other", "bad"}

func cliEBody(r *RNG, class string) string {
	switch class {
	case "davError":
		cond := E(r.Pick([]string{"DAV:", nsCal, nsCard}), r.Pick([]string{"lock-token-submitted", "valid-calendar-data", "no-uid-conflict", "need-privileges"}))
		if r.Chance(40) {
			// a long condition (many hrefs): error bodies are not bounded by a kilobyte
			for i := r.Range(20, 120); i > 0; i-- {
				cond.Add(E("DAV:", "href").T(fmt.Sprintf("/locked/resource-%04d/with/a/long/path", i)))
			}
		}
		return randStyle(r).doc(E("DAV:", "error", cond))
	case "xmlOther":
		return randStyle(r).doc(E("DAV:", r.Pick([]string{"multistatus2", "errors", "prop"}), E("DAV:", "x")))
	case "garbage":
		return r.Pick([]string{"Forbidden", "<html><body>nope", "\x00\x01 binary \xff", strings.Repeat("long text ", 300), "<D:error xmlns:D=\"DAV:\"><D:x/>"})
	}
	return r.Pick([]string{"", " \n\t "})
}

var cliEBodies = []string{"davError", "xmlOther", "garbage", "blank"}

// error classification of a returned error
func classifyErr(err error, body string) string {
	if err == nil {
		return "ok"
	}
	var he *internal.HTTPError
	if !errors.As(err, &he) {
		return "plain"
	}
	w := "nothing"
	var de *internal.Error
	if errors.As(err, &de) {
		w = "dav"
	} else if he.Err != nil {
		t := strings.TrimSpace(body)
		msg := he.Err.Error()
		if len(t) > 0 && (msg == t || (len(t) >= 1000 && strings.HasPrefix(msg, t[:1000]))) {
			w = "text"
		} else {
			w = "decodeErr"
		}
	}
	return fmt.Sprintf("http %d %s", he.Code, w)
}

func cliStatuses(r *RNG) []int {
	return []int{100, 101, 199, 200, 201, 204, 206, 207, 208, 226, 299, 300, 301, 302, 304, 307, 400, 401, 403, 404, 405, 409, 412, 415, 423, 424, 500, 501, 502, 503, 507, 599, r.Range(100, 599)}
}

// ---- clicore: the decision functions themselves, against the model ----

func sxResp(hrefs int, status string, stats [][2]string) string {
	var ps []string
	for _, s := range stats {
		var names []string
		for _, n := range strings.Fields(s[1]) {
			names = append(names, hx(n))
		}
		ps = append(ps, sx(s[0], sxl(names)))
	}
	return sx("resp", itoa(hrefs), status, sxl(ps))
}

func statusText(code string) string {
	switch code {
	case "nil":
		return ""
	case "0":
		return ""
	}
	return "HTTP/1.1 " + code + " X"
}

// builds a DAV:response from the descriptor; each propstat's values carry the propstat's index
func buildResp(hrefs int, status string, stats [][2]string, pathBase string) *wEl {
	resp := E("DAV:", "response")
	for i := 0; i < hrefs; i++ {
		p := pathBase
		if i > 0 {
			p = fmt.Sprintf("%s-%d", pathBase, i)
		}
		resp.Add(E("DAV:", "href").T(p))
	}
	for i, s := range stats {
		prop := E("DAV:", "prop")
		for _, n := range strings.Fields(s[1]) {
			switch n {
			case "getetag":
				prop.Add(E("DAV:", "getetag").T(fmt.Sprintf("\"v%d\"", i)))
			case "displayname":
				prop.Add(E("DAV:", "displayname").T(fmt.Sprintf("v%d", i)))
			case "getlastmodified":
				prop.Add(E("DAV:", "getlastmodified").T(fmt.Sprintf("Sun, 10 Mar 2024 01:00:%02d GMT", i)))
			default:
				prop.Add(E("urn:x", n).T(fmt.Sprintf("v%d", i)))
			}
		}
		pse := E("DAV:", "propstat", prop)
		if s[0] != "0" {
			pse.Add(E("DAV:", "status").T(statusText(s[0])))
		} else {
			pse.Add(E("DAV:", "status"))
		}
		resp.Add(pse)
	}
	if status != "nil" {
		resp.Add(E("DAV:", "status").T(statusText(status)))
	}
	return resp
}

func emitCliResp(o *Out, r *RNG, hrefs int, status string, stats [][2]string, name string) {
	emitCliRespX(o, r, hrefs, status, stats, name, false, false)
}

// withErr / withDesc: the response carries a DAV:error condition element / a DAV:responsedescription
func emitCliRespX(o *Out, r *RNG, hrefs int, status string, stats [][2]string, name string, withErr, withDesc bool) {
	respEl := buildResp(hrefs, status, stats, "/c/x")
	if withErr {
		respEl.Add(E("DAV:", "error", E(r.Pick([]string{"DAV:", nsCal, nsCard}), r.Pick([]string{"lock-token-submitted", "no-uid-conflict", "valid-address-data"}))))
	}
	if withDesc {
		respEl.Add(E("DAV:", "responsedescription").T("because of reasons"))
	}
	doc := randStyle(r).doc(E("DAV:", "multistatus", respEl))
	res := guard(func() string {
		var ms internal.MultiStatus
		if err := xml.Unmarshal([]byte(doc), &ms); err != nil || len(ms.Responses) != 1 {
			return "generator-error"
		}
		resp := &ms.Responses[0]
		// Response.Err
		e := "none"
		if err := resp.Err(); err != nil {
			var he *internal.HTTPError
			if errors.As(err, &he) {
				e = itoa(he.Code)
				if withErr || withDesc {
					var de *internal.Error
					if errors.As(err, &de) && len(de.Raw) >= 1 { // (the independent writer may add an unknown extension element next to the condition)
						e += ":dav"
					} else if he.Err != nil {
						e += ":text"
					}
				}
			} else {
				e = "plain"
			}
		}
		// Response.Path
		p, perr := resp.Path()
		ps := "ok " + hx(p)
		if perr != nil {
			var he *internal.HTTPError
			if errors.As(perr, &he) {
				ps = "http " + itoa(he.Code) + " " + hx(p)
			} else {
				ps = "malformed"
			}
		}
		// Response.DecodeProp
		var val string
		var derr error
		switch name {
		case "getetag":
			var v internal.GetETag
			derr = resp.DecodeProp(&v)
			val = string(v.ETag)
		default:
			var v internal.DisplayName
			derr = resp.DecodeProp(&v)
			val = v.Name
		}
		ds := "value " + strings.TrimPrefix(val, "v")
		if derr != nil {
			var he *internal.HTTPError
			if errors.As(derr, &he) {
				ds = "http " + itoa(he.Code)
			} else {
				ds = "plain"
			}
		}
		return fmt.Sprintf("err %s path %s prop %s", e, ps, ds)
	})
	desc := sxResp(hrefs, status, stats)
	if withErr || withDesc {
		desc = strings.TrimSuffix(desc, " )") + " " + b01(withErr) + " " + b01(withDesc) + " )"
	}
	o.Emit("cli.resp", desc+" "+hx(name), res)
}

func emitCliSync(o *Out, r *RNG, reqPath string, descs []struct {
	hrefs  int
	status string
	stats  [][2]string
	path   string
}) {
	root := E("DAV:", "multistatus")
	var ds []string
	for _, d := range descs {
		root.Add(buildResp(d.hrefs, d.status, d.stats, d.path))
		ds = append(ds, sx(hx(d.path), sxResp(d.hrefs, d.status, d.stats)))
	}
	root.Add(E("DAV:", "sync-token").T("tok"))
	sc := &scriptClient{status: 207, ctype: "application/xml", body: randStyle(r).doc(root)}
	res := guard(func() string {
		c, _ := carddav.NewClient(sc, "http://example.com/")
		sr, err := c.SyncCollection(context.Background(), reqPath, &carddav.SyncQuery{SyncToken: "t"})
		if err != nil {
			return "fail"
		}
		var del, upd []string
		for _, p := range sr.Deleted {
			del = append(del, hx(p))
		}
		for _, a := range sr.Updated {
			upd = append(upd, hx(a.Path))
		}
		return "deleted " + sxl(del) + " updated " + sxl(upd)
	})
	o.Emit("cli.sync", hx(reqPath)+" "+sxl(ds), res)
}

func famCliCore(o *Out, r *RNG, thorough bool) {
	// Do / DoMultiStatus: statuses x content types x body classes, exhaustively
	for _, st := range cliStatuses(r) {
		for _, ct := range cliCTNames {
			for _, eb := range cliEBodies {
				body := cliEBody(r, eb)
				sc := &scriptClient{status: st, ctype: cliCTs[ct], body: body}
				res := guard(func() string {
					ic, _ := internal.NewClient(sc, "http://example.com/")
					req, _ := ic.NewRequest("GET", "/x", nil)
					resp, err := ic.Do(req)
					if err == nil && resp == nil {
						return "nil-nil"
					}
					return classifyErr(err, body)
				})
				o.Emit("cli.do", fmt.Sprintf("%d %s %s", st, ct, eb), res)
				for _, mb := range []string{"decodes", "broken"} {
					msBody := body
					if st/100 == 2 {
						msBody = `<?xml version="1.0"?><D:multistatus xmlns:D="DAV:"><D:response><D:href>/x</D:href><D:status>HTTP/1.1 200 OK</D:status></D:response></D:multistatus>`
						if mb == "broken" {
							msBody = r.Pick([]string{msBody[:r.Range(1, len(msBody)-2)], "", "not xml", `<D:prop xmlns:D="DAV:"/>`, `<multistatus xmlns="urn:x"/>`,
								// not well-formed in the ways a lenient parser lets through: an end tag that does not match, an unquoted
								// attribute value, a bare ampersand, an undeclared entity
								strings.Replace(msBody, "</D:status>", "</D:propstat>", 1), strings.Replace(msBody, "</D:multistatus>", "</D:multistatuz>", 1),
								strings.Replace(msBody, `xmlns:D="DAV:"`, `xmlns:D="DAV:" verif=1`, 1), strings.Replace(msBody, "<D:href>/x", "<D:href>/x & y", 1),
								strings.Replace(msBody, "<D:href>/x", "<D:href>/x&nbsp;y", 1)})
						}
					}
					sc2 := &scriptClient{status: st, ctype: cliCTs[ct], body: msBody}
					res2 := guard(func() string {
						ic, _ := internal.NewClient(sc2, "http://example.com/")
						ms, err := ic.PropFind(context.Background(), "/x", internal.DepthZero, internal.NewPropNamePropFind(internal.GetETagName))
						if err == nil && ms == nil {
							return "nil-nil"
						}
						return classifyErr(err, msBody)
					})
					o.Emit("cli.ms", fmt.Sprintf("%d %s %s %s", st, ct, eb, mb), res2)
				}
			}
		}
	}
	// Response.Err / Path / DecodeProp: all placements of response and propstat statuses
	codes := []string{"nil", "200", "201", "204", "207", "301", "403", "404", "423", "500", "507"}
	pcodes := []string{"200", "0", "201", "204", "403", "404", "500"}
	for _, hrefs := range []int{0, 1, 2} {
		for _, st := range codes {
			for _, p1 := range pcodes {
				for _, p2 := range pcodes {
					for _, layout := range [][2]string{{"getetag", "displayname"}, {"getetag displayname", ""}, {"", "getetag displayname"}, {"displayname", "getetag"}, {"getetag", "getetag"}, {"other", "other2"}} {
						stats := [][2]string{{p1, layout[0]}, {p2, layout[1]}}
						emitCliResp(o, r, hrefs, st, stats, "getetag")
						if thorough {
							emitCliResp(o, r, hrefs, st, stats, "displayname")
						}
					}
				}
			}
		}
	}
	// failed responses carrying a DAV:error element and / or a description
	for _, st := range []string{"nil", "200", "403", "404", "409", "423", "507"} {
		for _, we := range []bool{false, true} {
			for _, wd := range []bool{false, true} {
				for _, hrefs := range []int{1, 2} {
					emitCliRespX(o, r, hrefs, st, [][2]string{{"200", "getetag"}, {"404", "displayname"}}, "getetag", we, wd)
				}
			}
		}
	}
	// sync-collection classification
	n := 400
	if thorough {
		n = 8000
	}
	for i := 0; i < n; i++ {
		reqPath := r.Pick([]string{"/ab/", "/ab"})
		var descs []struct {
			hrefs  int
			status string
			stats  [][2]string
			path   string
		}
		for k := r.Range(0, 4); k > 0; k-- {
			d := struct {
				hrefs  int
				status string
				stats  [][2]string
				path   string
			}{hrefs: 1, status: "nil", path: "/ab/" + r.Pick([]string{"a.vcf", "b.vcf", "c d.vcf", ""})}
			switch r.Intn(8) {
			case 0:
				d.status = "404"
			case 1:
				d.status = r.Pick([]string{"403", "500", "410", "200", "204"})
			case 2:
				d.hrefs = r.Pick2(0, 2)
				d.status = r.Pick([]string{"nil", "404"})
			}
			if d.path == "/ab/" && r.Bool() {
				d.path = "/ab"
			}
			d.stats = [][2]string{{r.Pick([]string{"200", "200", "200", "404", "403", "0"}), r.Pick([]string{"getetag getlastmodified", "getetag", "getlastmodified", ""})},
				{r.Pick([]string{"404", "200", "500"}), r.Pick([]string{"", "getetag", "getlastmodified", "other"})}}
			descs = append(descs, d)
		}
		emitCliSync(o, r, reqPath, descs)
	}
}

// ---- climeth: every public client method against scripted responses ----

const poison = "POISON"

// a multi-status with one response that satisfies every client method; all values are marked
func richResponse(path string, respStatus string, propStatus string, nHrefs int) *wEl {
	resp := E("DAV:", "response")
	for i := 0; i < nHrefs; i++ {
		resp.Add(E("DAV:", "href").T(path))
	}
	prop := E("DAV:", "prop",
		E("DAV:", "resourcetype", E("DAV:", "collection"), E(nsCal, "calendar"), E(nsCard, "addressbook")),
		E("DAV:", "displayname").T(poison+"-name"),
		E("DAV:", "getetag").T("\""+poison+"-etag\""),
		E("DAV:", "getlastmodified").T("Sun, 10 Mar 2024 01:00:00 GMT"),
		E("DAV:", "getcontentlength").T("424242"),
		E("DAV:", "getcontenttype").T("text/"+poison),
		E("DAV:", "current-user-principal", E("DAV:", "href").T("/"+poison+"/principal/")),
		E(nsCal, "calendar-home-set", E("DAV:", "href").T("/"+poison+"/cal/")),
		E(nsCard, "addressbook-home-set", E("DAV:", "href").T("/"+poison+"/ab/")),
		E(nsCal, "calendar-description").T(poison+"-desc"),
		E(nsCard, "addressbook-description").T(poison+"-desc"),
		E(nsCal, "max-resource-size").T("424242"),
		E(nsCard, "max-resource-size").T("424242"),
		E(nsCal, "supported-calendar-component-set", E(nsCal, "comp").A("name", poison+"-COMP")),
		E(nsCard, "supported-address-data", E(nsCard, "address-data-type").A("content-type", "text/"+poison).A("version", "4.0")),
		E(nsCal, "calendar-data").T("BEGIN:VCALENDAR\r\nVERSION:2.0\r\nPRODID:-//x//EN\r\nBEGIN:VEVENT\r\nUID:"+poison+"\r\nDTSTAMP:20240310T010000Z\r\nEND:VEVENT\r\nEND:VCALENDAR\r\n"),
		E(nsCard, "address-data").T("BEGIN:VCARD\r\nVERSION:4.0\r\nFN:"+poison+"\r\nEND:VCARD\r\n"))
	ps := E("DAV:", "propstat", prop)
	switch propStatus {
	case "empty":
		ps.Add(E("DAV:", "status"))
	case "absent":
	case "two-fields":
		ps.Add(E("DAV:", "status").T("HTTP/1.1 200"))
	default:
		ps.Add(E("DAV:", "status").T("HTTP/1.1 " + propStatus + " X"))
	}
	resp.Add(ps)
	if respStatus != "nil" {
		resp.Add(E("DAV:", "status").T("HTTP/1.1 " + respStatus + " X"))
	}
	return resp
}

type cliMethod struct {
	name string
	kind string // ms-flat | ms-list | ms-sync | plain | getobj | putobj | options
	call func(sc *scriptClient) (interface{}, error)
}

func cliMethods() []cliMethod {
	ctx := context.Background()
	wc := func(sc *scriptClient) *webdav.Client {
		c, _ := webdav.NewClient(sc, "http://example.com/dav/")
		return c
	}
	cc := func(sc *scriptClient) *caldav.Client {
		c, _ := caldav.NewClient(sc, "http://example.com/dav/")
		return c
	}
	ac := func(sc *scriptClient) *carddav.Client {
		c, _ := carddav.NewClient(sc, "http://example.com/dav/")
		return c
	}
	return []cliMethod{
		{"webdav.FindCurrentUserPrincipal", "ms-flat", func(sc *scriptClient) (interface{}, error) { return wc(sc).FindCurrentUserPrincipal(ctx) }},
		{"webdav.Stat", "ms-flat", func(sc *scriptClient) (interface{}, error) { return wc(sc).Stat(ctx, "/dav/x") }},
		{"webdav.ReadDir", "ms-list", func(sc *scriptClient) (interface{}, error) { return wc(sc).ReadDir(ctx, "/dav/", true) }},
		{"webdav.Open", "plain", func(sc *scriptClient) (interface{}, error) {
			rc, err := wc(sc).Open(ctx, "/dav/x")
			if err != nil {
				return nil, err
			}
			defer rc.Close()
			b, err := io.ReadAll(rc)
			return len(b), err
		}},
		{"webdav.Create", "plain", func(sc *scriptClient) (interface{}, error) {
			w, err := wc(sc).Create(ctx, "/dav/x")
			if err != nil {
				return nil, err
			}
			w.Write([]byte("content"))
			return nil, w.Close()
		}},
		{"webdav.RemoveAll", "plain", func(sc *scriptClient) (interface{}, error) { return nil, wc(sc).RemoveAll(ctx, "/dav/x") }},
		{"webdav.Mkdir", "plain", func(sc *scriptClient) (interface{}, error) { return nil, wc(sc).Mkdir(ctx, "/dav/x") }},
		{"webdav.Copy", "plain", func(sc *scriptClient) (interface{}, error) { return nil, wc(sc).Copy(ctx, "/dav/x", "/dav/y", nil) }},
		{"webdav.Move", "plain", func(sc *scriptClient) (interface{}, error) { return nil, wc(sc).Move(ctx, "/dav/x", "/dav/y", nil) }},
		{"caldav.FindCalendarHomeSet", "ms-flat", func(sc *scriptClient) (interface{}, error) { return cc(sc).FindCalendarHomeSet(ctx, "/dav/u/") }},
		{"caldav.FindCalendars", "ms-list", func(sc *scriptClient) (interface{}, error) { return cc(sc).FindCalendars(ctx, "/dav/u/cal/") }},
		{"caldav.QueryCalendar", "ms-list", func(sc *scriptClient) (interface{}, error) {
			return cc(sc).QueryCalendar(ctx, "/dav/u/cal/a/", &caldav.CalendarQuery{CompFilter: caldav.CompFilter{Name: "VCALENDAR"}})
		}},
		{"caldav.MultiGetCalendar", "ms-list", func(sc *scriptClient) (interface{}, error) {
			return cc(sc).MultiGetCalendar(ctx, "/dav/u/cal/a/", &caldav.CalendarMultiGet{Paths: []string{"/dav/u/cal/a/x.ics"}})
		}},
		{"caldav.GetCalendarObject", "getobj", func(sc *scriptClient) (interface{}, error) {
			return cc(sc).GetCalendarObject(ctx, "/dav/u/cal/a/x.ics")
		}},
		{"caldav.PutCalendarObject", "putobj", func(sc *scriptClient) (interface{}, error) {
			return cc(sc).PutCalendarObject(ctx, "/dav/u/cal/a/x.ics", simpleCal("u1", "s"))
		}},
		{"carddav.HasSupport", "options", func(sc *scriptClient) (interface{}, error) { return nil, ac(sc).HasSupport(ctx) }},
		{"carddav.FindAddressBookHomeSet", "ms-flat", func(sc *scriptClient) (interface{}, error) { return ac(sc).FindAddressBookHomeSet(ctx, "/dav/u/") }},
		{"carddav.FindAddressBooks", "ms-list", func(sc *scriptClient) (interface{}, error) { return ac(sc).FindAddressBooks(ctx, "/dav/u/ab/") }},
		{"carddav.QueryAddressBook", "ms-list", func(sc *scriptClient) (interface{}, error) {
			return ac(sc).QueryAddressBook(ctx, "/dav/u/ab/a/", &carddav.AddressBookQuery{})
		}},
		{"carddav.MultiGetAddressBook", "ms-list", func(sc *scriptClient) (interface{}, error) {
			return ac(sc).MultiGetAddressBook(ctx, "/dav/u/ab/a/", &carddav.AddressBookMultiGet{Paths: []string{"/dav/u/ab/a/x.vcf"}})
		}},
		{"carddav.GetAddressObject", "getobj", func(sc *scriptClient) (interface{}, error) { return ac(sc).GetAddressObject(ctx, "/dav/u/ab/a/x.vcf") }},
		{"carddav.PutAddressObject", "putobj", func(sc *scriptClient) (interface{}, error) {
			return ac(sc).PutAddressObject(ctx, "/dav/u/ab/a/x.vcf", simpleCard("A B"))
		}},
		{"carddav.SyncCollection", "ms-sync", func(sc *scriptClient) (interface{}, error) {
			return ac(sc).SyncCollection(ctx, "/dav/u/ab/a/", &carddav.SyncQuery{SyncToken: "t"})
		}},
	}
}

// runs a call under recover and a watchdog
func runCli(m cliMethod, sc *scriptClient) (res string, out string) {
	type ret struct {
		v   interface{}
		err error
		pan bool
	}
	ch := make(chan ret, 1)
	go func() {
		defer func() {
			if r := recover(); r != nil {
				ch <- ret{pan: true}
			}
		}()
		v, err := m.call(sc)
		ch <- ret{v: v, err: err}
	}()
	select {
	case x := <-ch:
		if x.pan {
			return "panic", ""
		}
		b, _ := json.Marshal(x.v)
		return classifyErr(x.err, sc.body), string(b)
	case <-time.After(5 * time.Second):
		return "hang", ""
	}
}

func emitCliMeth(o *Out, m cliMethod, sc *scriptClient, script string, expectData bool) {
	res, out := runCli(m, sc)
	leak := strings.Contains(out, poison)
	o.Stat("climeth." + m.kind + "." + strings.Fields(res)[0])
	if strings.HasPrefix(script, "( place") {
		o.Emit("cli.meth", fmt.Sprintf("%s %s %s %s", m.kind, hx(m.name), script, b01(expectData)), fmt.Sprintf("%s leak %s", res, b01(leak)))
		return
	}
	// outside the placement scripts data is either expected (a good answer) or impossible; only an error that still
	// hands out marked data is reported
	if leak && res != "ok" {
		res += " LEAK"
	}
	o.Emit("cli.meth", fmt.Sprintf("%s %s %s %s", m.kind, hx(m.name), script, b01(expectData)), res)
}

func famCliMeth(o *Out, r *RNG, thorough bool) {
	methods := cliMethods()
	objHeaders := http.Header{"Dav": {"1, 3, addressbook, calendar-access"}, "Allow": {"OPTIONS, GET"}, "Etag": {"\"e\""}, "Last-Modified": {"Sun, 10 Mar 2024 01:00:00 GMT"}}
	// the same compliance classes and methods, spread over header lines and spelled as servers do (a header field may
	// be repeated, RFC 7230 §3.2.2; the model is not told)
	davStyles := [][]string{{"1, 3, addressbook, calendar-access"}, {"1, 3", "addressbook", "calendar-access"}, {"calendar-access, addressbook", "3,1"},
		{"1,3,addressbook,calendar-access"}, {" 1 ,  3 , ADDRESSBOOK , Calendar-Access "}, {"3", "calendar-access", "addressbook", "1"}, {"1, 2, 3, access-control, extended-mkcol", "addressbook, calendar-access"}}
	allowStyles := [][]string{{"OPTIONS, GET"}, {"OPTIONS", "GET"}, {"GET,OPTIONS"}, {"options, get"}}
	styleNo := 0
	restyle := func() {
		styleNo++
		objHeaders = objHeaders.Clone()
		objHeaders["Dav"] = davStyles[styleNo%len(davStyles)]
		objHeaders["Allow"] = allowStyles[(styleNo/len(davStyles))%len(allowStyles)]
	}
	goodMs := func(m cliMethod) string {
		path := "/dav/u/cal/a/x.ics"
		root := E("DAV:", "multistatus", richResponse(path, "nil", "200", 1), E("DAV:", "sync-token").T("tok"))
		return randStyle(r).doc(root)
	}
	goodBody := func(m cliMethod) (string, string) {
		switch m.kind {
		case "getobj":
			if strings.HasPrefix(m.name, "caldav") {
				return "text/calendar", frontIcal
			}
			return "text/vcard", frontVcard
		case "ms-flat", "ms-list", "ms-sync":
			return "application/xml", goodMs(m)
		}
		return "", ""
	}
	for _, m := range methods {
		// every status x content type x error-body class
		for _, st := range cliStatuses(r) {
			for _, ct := range cliCTNames {
				for _, eb := range cliEBodies {
					if !thorough && st/100 != 2 && ct != "xml" && ct != "absent" && eb != "davError" {
						continue
					}
					sc := &scriptClient{status: st, ctype: cliCTs[ct], body: cliEBody(r, eb), header: objHeaders}
					emitCliMeth(o, m, sc, fmt.Sprintf("( err %d %s %s )", st, ct, eb), false)
				}
			}
			// a good body for the method under every status
			ct, body := goodBody(m)
			restyle()
			sc := &scriptClient{status: st, ctype: ct, body: body, header: objHeaders}
			emitCliMeth(o, m, sc, fmt.Sprintf("( good %d )", st), true)
		}
		// iCalendar / vCard content lines on which the object parsers are known to be fragile
		if strings.HasPrefix(m.name, "caldav.") || strings.HasPrefix(m.name, "carddav.") {
			for _, line := range []string{`X;A="b"c:v`, "SUMMARY;X=", `ATTENDEE;CN="x:mailto:a@b`, ";=:v", "A;B=\"", " folded-first"} {
				ical := "BEGIN:VCALENDAR\r\nVERSION:2.0\r\nPRODID:-//x//EN\r\nBEGIN:VEVENT\r\nUID:u\r\n" + line + "\r\nDTSTAMP:20240310T010000Z\r\nEND:VEVENT\r\nEND:VCALENDAR\r\n"
				vc := "BEGIN:VCARD\r\nVERSION:4.0\r\n" + line + "\r\nFN:x\r\nEND:VCARD\r\n"
				switch m.kind {
				case "getobj":
					body, ct := ical, "text/calendar"
					if strings.HasPrefix(m.name, "carddav") {
						body, ct = vc, "text/vcard"
					}
					emitCliMeth(o, m, &scriptClient{status: 200, ctype: ct, body: body, header: objHeaders}, "( fragile )", false)
				case "ms-list":
					resp := E("DAV:", "response", E("DAV:", "href").T("/dav/u/cal/a/x.ics"), E("DAV:", "propstat",
						E("DAV:", "prop", E(nsCal, "calendar-data").T(ical), E(nsCard, "address-data").T(vc), E("DAV:", "getetag").T("\"e\""),
							E("DAV:", "resourcetype", E("DAV:", "collection"), E(nsCal, "calendar"), E(nsCard, "addressbook"))),
						E("DAV:", "status").T("HTTP/1.1 200 OK")))
					emitCliMeth(o, m, &scriptClient{status: 207, ctype: "text/xml", body: randStyle(r).doc(E("DAV:", "multistatus", resp))}, "( fragile )", false)
				}
			}
		}
		// the same odd values as PROPERTY texts of a multi-status (an entity tag cut short or weak or empty, a date or a
		// length that is none): the call returns a value or an error, it never panics
		if strings.HasPrefix(m.kind, "ms-") {
			for _, etag := range []string{"\"", "W/\"", "W/", "", "\"\"", "e", "\"e", "e\"", "W/\"e\"", "\"\\", "'e'", " ", "W"} {
				for _, lm := range []string{"Sun, 10 Mar 2024 01:00:00 GMT", "", "yesterday"} {
					resp := E("DAV:", "response", E("DAV:", "href").T("/dav/u/cal/a/x.ics"), E("DAV:", "propstat",
						E("DAV:", "prop", E("DAV:", "getetag").T(etag), E("DAV:", "getlastmodified").T(lm), E("DAV:", "getcontentlength").T(r.Pick([]string{"12", "", "-1", "x"})),
							E("DAV:", "resourcetype", E("DAV:", "collection"), E(nsCal, "calendar"), E(nsCard, "addressbook"))),
						E("DAV:", "status").T("HTTP/1.1 200 OK")))
					emitCliMeth(o, m, &scriptClient{status: 207, ctype: "text/xml", body: randStyle(r).doc(E("DAV:", "multistatus", resp))}, "( oddprop )", false)
				}
			}
		}
		// header values a server may send with a good answer: entity tags that are not quoted strings (cut short, weak,
		// empty), dates and lengths that are no dates or lengths -- the call returns (value or error), it never panics
		if m.kind == "getobj" || m.kind == "putobj" || m.kind == "options" {
			ct, body := goodBody(m)
			for _, etag := range []string{"\"", "W/\"", "W/", "", "\"\"", "e", "\"e", "e\"", "W/\"e\"", "\"\\", "\"a\\\"", "'e'", "\"é\""} {
				for _, lm := range []string{"Sun, 10 Mar 2024 01:00:00 GMT", "", "yesterday", "Sun, 10 Mar 2024"} {
					for _, st := range []int{200, 201, 204} {
						h := http.Header{"Dav": {"1, 3, addressbook, calendar-access"}, "Etag": {etag}, "Last-Modified": {lm}, "Content-Length": {"-5"}}
						emitCliMeth(o, m, &scriptClient{status: st, ctype: ct, body: body, header: h}, "( header )", false)
					}
				}
			}
		}
		if !strings.HasPrefix(m.kind, "ms-") && m.kind != "getobj" {
			continue
		}
		// truncation of the good body at every offset (207 resp. 200)
		ct, body := goodBody(m)
		st := 207
		if m.kind == "getobj" {
			st = 200
		}
		step := 1
		if !thorough {
			step = 7
		}
		for cut := 0; cut < len(body)-1; cut += step {
			sc := &scriptClient{status: st, ctype: ct, body: body[:cut], header: objHeaders}
			emitCliMeth(o, m, sc, fmt.Sprintf("( trunc %d )", st), false)
		}
		if m.kind == "getobj" {
			continue
		}
		// two resources in one answer: the first reports every property under 200, the second reports the same
		// properties under 404 (only its type, tag and data under 200): nothing of the first may show up as the second's
		for _, order := range []int{0, 1} {
			full := richResponse("/dav/u/cal/a/full.ics", "nil", "200", 1)
			bare := E("DAV:", "response", E("DAV:", "href").T("/dav/u/cal/a/bare.ics"),
				E("DAV:", "propstat", E("DAV:", "prop",
					E("DAV:", "resourcetype", E("DAV:", "collection"), E(nsCal, "calendar"), E(nsCard, "addressbook")),
					E("DAV:", "getetag").T("\"clean\""),
					E(nsCal, "calendar-data").T("BEGIN:VCALENDAR\r\nVERSION:2.0\r\nPRODID:-//x//EN\r\nBEGIN:VEVENT\r\nUID:clean\r\nDTSTAMP:20240310T010000Z\r\nEND:VEVENT\r\nEND:VCALENDAR\r\n"),
					E(nsCard, "address-data").T("BEGIN:VCARD\r\nVERSION:4.0\r\nFN:clean\r\nEND:VCARD\r\n")),
					E("DAV:", "status").T("HTTP/1.1 200 OK")),
				E("DAV:", "propstat", E("DAV:", "prop",
					E("DAV:", "displayname"), E("DAV:", "getlastmodified"), E("DAV:", "getcontentlength"), E("DAV:", "getcontenttype"),
					E(nsCal, "calendar-description"), E(nsCard, "addressbook-description"), E(nsCal, "max-resource-size"), E(nsCard, "max-resource-size"),
					E(nsCal, "supported-calendar-component-set"), E(nsCard, "supported-address-data")),
					E("DAV:", "status").T("HTTP/1.1 404 Not Found")))
			root := E("DAV:", "multistatus", full, bare)
			if order == 1 {
				root = E("DAV:", "multistatus", bare, full)
			}
			root.Add(E("DAV:", "sync-token").T("tok"))
			sc := &scriptClient{status: 207, ctype: "text/xml", body: randStyle(r).doc(root)}
			res, out := runCli(m, sc)
			// the entry of the bare resource, cut out of the JSON rendering of the result
			carried := false
			var generic interface{}
			if json.Unmarshal([]byte(out), &generic) == nil {
				var walk func(v interface{})
				walk = func(v interface{}) {
					switch x := v.(type) {
					case []interface{}:
						for _, e := range x {
							walk(e)
						}
					case map[string]interface{}:
						if p, _ := x["Path"].(string); strings.HasSuffix(p, "bare.ics") {
							b, _ := json.Marshal(x)
							if strings.Contains(string(b), poison) || strings.Contains(string(b), "424242") || strings.Contains(string(b), "2024-03-10") {
								carried = true
							}
							return
						}
						for _, e := range x {
							walk(e)
						}
					}
				}
				walk(generic)
			}
			o.Stat("climeth.carry." + strings.Fields(res)[0])
			o.Emit("cli.meth", fmt.Sprintf("%s %s ( carry %d ) 0", m.kind, hx(m.name), order), fmt.Sprintf("%s leak %s", res, b01(carried)))
		}
		// status placements inside the multi-status
		for _, rs := range []string{"nil", "200", "204", "301", "403", "404", "500", "507"} {
			for _, pst := range []string{"200", "201", "204", "403", "404", "500", "empty", "absent", "two-fields"} {
				for _, nh := range []int{0, 1, 2} {
					for _, nresp := range []int{0, 1, 2} {
						root := E("DAV:", "multistatus")
						for k := 0; k < nresp; k++ {
							root.Add(richResponse(fmt.Sprintf("/dav/u/cal/a/x%d.ics", k), rs, pst, nh))
						}
						root.Add(E("DAV:", "sync-token").T("tok"))
						sc := &scriptClient{status: 207, ctype: "text/xml", body: randStyle(r).doc(root)}
						emitCliMeth(o, m, sc, fmt.Sprintf("( place %s %s %d %d )", rs, pst, nh, nresp), false)
					}
				}
			}
		}
	}
}

func init() { families["clicore"] = famCliCore; families["climeth"] = famCliMeth }
