package main

import (
	"context"
	"fmt"
	"net/http/httptest"
	"strings"
	"time"

	"github.com/emersion/go-webdav/caldav"
)

// C08: CalDAV queries across the wire

const nsCal = "urn:ietf:params:xml:ns:caldav"

func sxTime(t time.Time) string { return fmt.Sprint(t.Unix()) }

func sxCalTM(t *caldav.TextMatch) string {
	if t == nil {
		return "nil"
	}
	return sx("tm", hx(t.Text), b01(t.NegateCondition))
}

func sxCalCompFilter(f *caldav.CompFilter) string {
	var pfs, cfs []string
	for i := range f.Props {
		pf := &f.Props[i]
		var prms []string
		for _, pm := range pf.ParamFilter {
			prms = append(prms, sx("prm", hx(pm.Name), b01(pm.IsNotDefined), sxCalTM(pm.TextMatch)))
		}
		pfs = append(pfs, sx("pf", hx(pf.Name), b01(pf.IsNotDefined), sxTime(pf.Start), sxTime(pf.End), sxCalTM(pf.TextMatch), sxl(prms)))
	}
	for i := range f.Comps {
		cfs = append(cfs, sxCalCompFilter(&f.Comps[i]))
	}
	return sx("cf", hx(f.Name), b01(f.IsNotDefined), sxTime(f.Start), sxTime(f.End), sxl(pfs), sxl(cfs))
}

func sxCalComp(c *caldav.CalendarCompRequest) string {
	var ps, cs []string
	for _, p := range c.Props {
		ps = append(ps, hx(p))
	}
	for i := range c.Comps {
		cs = append(cs, sxCalComp(&c.Comps[i]))
	}
	return sx("c", hx(c.Name), b01(c.AllProps), sxl(ps), b01(c.AllComps), sxl(cs))
}

func sxCalDataReq(c *caldav.CalendarCompRequest) string {
	ex := "nil"
	if c.Expand != nil {
		ex = sx("ex", sxTime(c.Expand.Start), sxTime(c.Expand.End))
	}
	return sx("dr", sxCalComp(c), ex)
}

func sxCalQuery(q *caldav.CalendarQuery) string {
	return sx("q", sxCalDataReq(&q.CompRequest), sxCalCompFilter(&q.CompFilter))
}

func emitCalEnc(o *Out, q *caldav.CalendarQuery) {
	// the caller's value is described BEFORE the call and handed to the client twice: a call must not alter it
	args := sxCalQuery(q)
	emitCalEncOnce(o, q, args)
	emitCalEncOnce(o, q, args)
}

func emitCalEncOnce(o *Out, q *caldav.CalendarQuery, args string) {
	cc := &captureClient{}
	res := guard(func() string {
		c, err := caldav.NewClient(cc, "http://example.com/dav/")
		if err != nil {
			return "setup-error"
		}
		c.QueryCalendar(context.Background(), "/dav/u/cal/", q)
		if cc.body == nil {
			return "err"
		}
		t, err2 := treeOfBytes(cc.body)
		if err2 != nil {
			return "not-well-formed"
		}
		if cc.method != "REPORT" || cc.header.Get("Depth") != "1" || !strings.Contains(cc.header.Get("Content-Type"), "xml") {
			return "wrong-request-headers"
		}
		return sxNode(t)
	})
	o.Stat("calenc." + strings.Fields(res + " x")[0][:1])
	o.Emit("cal.enc", args, res)
}

func fmtCalTime(t time.Time) string {
	u := t.UTC()
	return fmt.Sprintf("%04d%02d%02dT%02d%02d%02dZ", u.Year(), int(u.Month()), u.Day(), u.Hour(), u.Minute(), u.Second())
}

func calRangeEl(local string, s, e time.Time) *wEl {
	el := E(nsCal, local)
	if !s.IsZero() {
		el.A("start", fmtCalTime(s))
	}
	if !e.IsZero() {
		el.A("end", fmtCalTime(e))
	}
	return el
}

func calTMEl(t *caldav.TextMatch, explicit bool) *wEl {
	e := E(nsCal, "text-match").T(t.Text)
	if t.NegateCondition {
		e.A("negate-condition", "yes")
	} else if explicit {
		e.A("negate-condition", "no")
	}
	if explicit {
		e.A("collation", "i;ascii-casemap")
	}
	return e
}

// the RFC 4791 §9.7 document of a filter, from the independent writer
func calCompFilterEl(f *caldav.CompFilter, explicit bool) *wEl {
	e := E(nsCal, "comp-filter").A("name", f.Name)
	if f.IsNotDefined {
		e.Add(E(nsCal, "is-not-defined"))
	}
	if !f.Start.IsZero() || !f.End.IsZero() {
		e.Add(calRangeEl("time-range", f.Start, f.End))
	}
	for i := range f.Props {
		pf := &f.Props[i]
		pe := E(nsCal, "prop-filter").A("name", pf.Name)
		if pf.IsNotDefined {
			pe.Add(E(nsCal, "is-not-defined"))
		}
		if !pf.Start.IsZero() || !pf.End.IsZero() {
			pe.Add(calRangeEl("time-range", pf.Start, pf.End))
		}
		if pf.TextMatch != nil {
			pe.Add(calTMEl(pf.TextMatch, explicit))
		}
		for _, pm := range pf.ParamFilter {
			pme := E(nsCal, "param-filter").A("name", pm.Name)
			if pm.IsNotDefined {
				pme.Add(E(nsCal, "is-not-defined"))
			}
			if pm.TextMatch != nil {
				pme.Add(calTMEl(pm.TextMatch, explicit))
			}
			pe.Add(pme)
		}
		e.Add(pe)
	}
	for i := range f.Comps {
		e.Add(calCompFilterEl(&f.Comps[i], explicit))
	}
	return e
}

func calCompEl(c *caldav.CalendarCompRequest, explicit bool) *wEl {
	e := E(nsCal, "comp").A("name", c.Name)
	if c.AllProps {
		e.Add(E(nsCal, "allprop"))
	}
	for _, p := range c.Props {
		pe := E(nsCal, "prop").A("name", p)
		if explicit {
			pe.A("novalue", "no")
		}
		e.Add(pe)
	}
	if c.AllComps {
		e.Add(E(nsCal, "allcomp"))
	}
	for i := range c.Comps {
		e.Add(calCompEl(&c.Comps[i], explicit))
	}
	return e
}

func calDataEl(c *caldav.CalendarCompRequest, explicit bool) *wEl {
	cd := E(nsCal, "calendar-data", calCompEl(c, explicit))
	if explicit {
		cd.A("content-type", "text/calendar").A("version", "2.0")
	}
	if c.Expand != nil {
		cd.Add(calRangeEl("expand", c.Expand.Start, c.Expand.End))
	}
	return cd
}

func calQueryDoc(r *RNG, q *caldav.CalendarQuery, mut string) *wEl {
	explicit := mut == "explicit-defaults"
	root := E(nsCal, "calendar-query")
	cd := calDataEl(&q.CompRequest, explicit)
	var prop *wEl
	if r.Bool() {
		prop = E("DAV:", "prop", E("DAV:", "getetag"), cd)
	} else {
		prop = E("DAV:", "prop", cd, E("DAV:", "getetag"))
	}
	root.Add(prop)
	cf := calCompFilterEl(&q.CompFilter, explicit)
	f := E(nsCal, "filter", cf)
	root.Add(f)
	if explicit {
		root.Add(E(nsCal, "timezone").T("BEGIN:VCALENDAR\r\nEND:VCALENDAR\r\n"))
	}
	switch mut {
	case "bad-negate":
		cf.Add(E(nsCal, "prop-filter", E(nsCal, "text-match").T("x").A("negate-condition", badValue("negate"))).A("name", "SUMMARY"))
	case "bad-date":
		cf.Add(E(nsCal, "comp-filter", E(nsCal, "time-range").A("start", "2024-01-01T00:00:00Z")).A("name", "VEVENT"))
	case "bad-date-2":
		cf.Add(E(nsCal, "comp-filter", E(nsCal, "time-range").A("end", "20240230T000000Z")).A("name", "VEVENT"))
	case "empty-date":
		cf.Add(E(nsCal, "comp-filter", E(nsCal, "time-range").A("start", "").A("end", "20240201T000000Z")).A("name", "VEVENT"))
	case "empty-date-2":
		cf.Add(E(nsCal, "prop-filter", E(nsCal, "time-range").A("start", "20240101T000000Z").A("end", "")).A("name", "DTSTART"))
	case "empty-expand":
		cd.Add(E(nsCal, "expand").A("start", "").A("end", ""))
		if q.CompRequest.Expand != nil {
			cd.children = cd.children[:1]
			cd.Add(E(nsCal, "expand").A("start", "").A("end", ""))
		}
	case "local-date":
		cf.Add(E(nsCal, "comp-filter", E(nsCal, "time-range").A("start", "20240101T000000")).A("name", "VEVENT"))
	case "bad-expand":
		cd.Add(E(nsCal, "expand").A("start", "yesterday").A("end", "20240201T000000Z"))
		if q.CompRequest.Expand != nil {
			cd.children = cd.children[:1]
			cd.Add(E(nsCal, "expand").A("start", "yesterday").A("end", "20240201T000000Z"))
		}
	case "comp-ind-with-range":
		cf.Add(E(nsCal, "comp-filter", E(nsCal, "is-not-defined"), E(nsCal, "time-range").A("start", "20240101T000000Z")).A("name", "VTODO"))
	case "comp-ind-with-prop":
		cf.Add(E(nsCal, "comp-filter", E(nsCal, "is-not-defined"), E(nsCal, "prop-filter").A("name", "UID")).A("name", "VTODO"))
	case "comp-ind-with-comp":
		cf.Add(E(nsCal, "comp-filter", E(nsCal, "is-not-defined"), E(nsCal, "comp-filter").A("name", "VALARM")).A("name", "VTODO"))
	case "prop-ind-with-match":
		cf.Add(E(nsCal, "prop-filter", E(nsCal, "is-not-defined"), E(nsCal, "text-match").T("x")).A("name", "UID"))
	case "prop-ind-with-range":
		cf.Add(E(nsCal, "prop-filter", E(nsCal, "is-not-defined"), E(nsCal, "time-range").A("end", "20240101T000000Z")).A("name", "DTSTART"))
	case "prop-ind-with-param":
		cf.Add(E(nsCal, "prop-filter", E(nsCal, "is-not-defined"), E(nsCal, "param-filter").A("name", "TZID")).A("name", "DTSTART"))
	case "param-ind-with-match":
		cf.Add(E(nsCal, "prop-filter", E(nsCal, "param-filter", E(nsCal, "is-not-defined"), E(nsCal, "text-match").T("x")).A("name", "TZID")).A("name", "DTSTART"))
	case "allprop-and-prop":
		cd.children[0].children = []*wEl{E(nsCal, "allprop"), E(nsCal, "prop").A("name", "UID")}
	case "allcomp-and-comp":
		cd.children[0].children = []*wEl{E(nsCal, "allcomp"), E(nsCal, "comp").A("name", "VEVENT")}
	case "nested-allprop-and-prop":
		// the same contradictions two and three levels down: every comp of the selection is held to the grammar
		cd.children[0].children = []*wEl{E(nsCal, "comp", E(nsCal, "allprop"), E(nsCal, "prop").A("name", "SUMMARY")).A("name", "VEVENT")}
	case "nested-allcomp-and-comp":
		cd.children[0].children = []*wEl{E(nsCal, "allprop"), E(nsCal, "comp", E(nsCal, "allcomp"), E(nsCal, "comp").A("name", "VALARM")).A("name", "VEVENT")}
	case "deep-allprop-and-prop":
		cd.children[0].children = []*wEl{E(nsCal, "comp", E(nsCal, "prop").A("name", "UID"), E(nsCal, "comp", E(nsCal, "allprop"), E(nsCal, "prop").A("name", "TRIGGER")).A("name", "VALARM")).A("name", "VEVENT")}
	case "wrong-root":
		root.local = "calendar-query2"
	case "wrong-root-ns":
		root.ns = "DAV:"
	case "wrong-filter-ns":
		f.ns = "DAV:"
	case "wrong-compfilter-ns":
		cf.ns = "urn:ietf:params:xml:ns:carddav"
	case "wrong-nested-ns":
		cf.Add(E("DAV:", "prop-filter").A("name", "UID"))
	case "wrong-comp-ns":
		cd.children[0].ns = "DAV:"
	case "wrong-dataprop-ns":
		cd.children[0].children = []*wEl{E("DAV:", "prop").A("name", "UID")}
	case "nocomp-expand":
		// calendar-data that asks for expansion of the whole object: no comp child (RFC 4791 9.6: comp is optional)
		cd.children = []*wEl{E(nsCal, "expand").A("start", "20240101T000000Z").A("end", "20240201T000000Z")}
	case "no-filter":
		root.children = root.children[:1]
	case "no-prop":
		root.children = root.children[1:]
	case "dav-allprop":
		root.children[0] = E("DAV:", "allprop")
	case "dav-propname":
		root.children[0] = E("DAV:", "propname")
	case "no-calendar-data":
		root.children[0] = E("DAV:", "prop", E("DAV:", "getetag"))
	case "empty-calendar-data":
		root.children[0] = E("DAV:", "prop", E(nsCal, "calendar-data"), E("DAV:", "getetag"))
	case "two-time-ranges":
		cf.Add(E(nsCal, "comp-filter", E(nsCal, "time-range").A("start", "20240101T000000Z"), E(nsCal, "time-range").A("end", "20240201T000000Z")).A("name", "VEVENT"))
	case "two-filters":
		root.Add(E(nsCal, "filter", E(nsCal, "comp-filter").A("name", "VCALENDAR")))
	}
	return root
}

func emitCalDec(o *Out, doc string, intended string) {
	t, err := treeOfBytes([]byte(doc))
	if err != nil {
		o.Stat("caldec.generator-rejected")
		return
	}
	b := &calBackend{principal: "/u/", homeSet: "/u/cal/"}
	h := &caldav.Handler{Backend: b}
	res := guard(func() string {
		req := httptest.NewRequest("REPORT", "http://example.com/u/cal/a/", strings.NewReader(doc))
		req.Header.Set("Content-Type", xmlCTSpelling(len(doc)))
		rec := httptest.NewRecorder()
		h.ServeHTTP(rec, req)
		code := rec.Result().StatusCode
		if code != 207 {
			return fmt.Sprint(code)
		}
		if b.lastQuery == nil {
			return "nobackend"
		}
		return "ok " + sxCalQuery(b.lastQuery)
	})
	o.Stat("caldec." + strings.Fields(res)[0])
	o.Emit("cal.dec", sxNode(t)+" "+intended, res)
}

func sxCalMultiGet(c *caldav.CalendarCompRequest, paths []string) string {
	var hs []string
	for _, p := range paths {
		hs = append(hs, hx(p))
	}
	return sx("mg", sxCalDataReq(c), sxl(hs))
}

func emitCalMg(o *Out, r *RNG, reqPath string, mg *caldav.CalendarMultiGet) {
	// the caller's value is described BEFORE the call; the same value is then used for a second call on another path
	args := sxCalMultiGet(&mg.CompRequest, mg.Paths)
	defer func() {
		cc2 := &captureClient{}
		other := reqPath + "other/"
		res := guard(func() string {
			c, _ := caldav.NewClient(cc2, "http://example.com/")
			c.MultiGetCalendar(context.Background(), other, mg)
			if cc2.body == nil {
				return "err"
			}
			t, err := treeOfBytes(cc2.body)
			if err != nil {
				return "not-well-formed"
			}
			return sxNode(t)
		})
		o.Emit("cal.encmg", hx(other)+" "+args, res)
	}()
	cc := &captureClient{}
	res := guard(func() string {
		c, _ := caldav.NewClient(cc, "http://example.com/")
		c.MultiGetCalendar(context.Background(), reqPath, mg)
		if cc.body == nil {
			return "err"
		}
		t, err := treeOfBytes(cc.body)
		if err != nil {
			return "not-well-formed"
		}
		return sxNode(t)
	})
	o.Emit("cal.encmg", hx(reqPath)+" "+args, res)
	// wire -> backend with an independently written RFC document (prop first, then hrefs)
	root := E(nsCal, "calendar-multiget")
	root.Add(E("DAV:", "prop", E("DAV:", "getetag"), calDataEl(&mg.CompRequest, false)))
	paths := mg.Paths
	if len(paths) == 0 {
		paths = []string{reqPath}
	}
	for _, p := range paths {
		root.Add(E("DAV:", "href").T(hrefSpellingPath(p)))
	}
	doc := randStyle(r).doc(root)
	t, err := treeOfBytes([]byte(doc))
	if err != nil {
		return
	}
	b := &calBackend{principal: "/u/", homeSet: "/u/cal/"}
	h := &caldav.Handler{Backend: b}
	res2 := guard(func() string {
		req := httptest.NewRequest("REPORT", "http://example.com/u/cal/a/", strings.NewReader(doc))
		req.Header.Set("Content-Type", "text/xml")
		rec := httptest.NewRecorder()
		h.ServeHTTP(rec, req)
		if rec.Result().StatusCode != 207 {
			return fmt.Sprint(rec.Result().StatusCode)
		}
		var got []string
		for _, c := range b.log.take() {
			if strings.HasPrefix(c, "GetCalendarObject ") {
				got = append(got, strings.TrimPrefix(c, "GetCalendarObject "))
			}
		}
		if b.lastGetReq == nil {
			return "nobackend"
		}
		return "ok " + sx("mg", sxCalDataReq(b.lastGetReq), sxl(got))
	})
	o.Emit("cal.decmg", sxNode(t)+" "+sxCalMultiGet(&mg.CompRequest, paths), res2)
}

var calZones = []*time.Location{time.UTC, time.FixedZone("IST", 5*3600+1800), time.FixedZone("PST", -8*3600),
	time.FixedZone("", 14*3600), time.FixedZone("odd", -(3*3600 + 17*60 + 5))}

// an instant in an arbitrary zone, possibly with a sub-second part; the zero time.Time means "no bound"
func randInstant(r *RNG, zeroPct int) time.Time {
	if r.Chance(zeroPct) {
		return time.Time{}
	}
	var sec int64
	switch r.Intn(6) {
	case 0:
		sec = int64(r.Range(0, 2000000000))
	case 1:
		sec = 1704067200 + int64(r.Range(-86400*400, 86400*400)) // around 2024
	case 2:
		sec = -62135596800 + int64(r.Range(1, 86400*365)) // year 1
	case 3:
		sec = 253402300799 - int64(r.Range(0, 86400*365)) // year 9999
	case 4:
		sec = int64(r.Range(-2000000000, 0))
	default:
		sec = 951782400 + int64(r.Range(-86400*2, 86400*2)) // around 2000-02-29
	}
	nsec := int64(0)
	if r.Chance(30) {
		nsec = int64(r.Range(1, 999999999))
	}
	return time.Unix(sec, nsec).In(calZones[r.Intn(len(calZones))])
}

var cwCalTexts = []string{"", "a", " lead", "trail ", "a b", "<&>", "é", "x@y.z", "\"q\"", "a\nb", "]]>", "  ", "&amp;", "\r", "Main St 1\r\nSpringfield", "trailing\r", "\ttab", "nel\u0085ls\u2028"}
var cwCompNames = []string{"VCALENDAR", "VEVENT", "VTODO", "VALARM", "VTIMEZONE", "X-é", ""}
var cwPropNames = []string{"SUMMARY", "UID", "DTSTART", "ATTENDEE", "X-A&B", ""}

func randCalTM(r *RNG) *caldav.TextMatch {
	return &caldav.TextMatch{Text: r.Pick(cwCalTexts), NegateCondition: r.Chance(40)}
}

// valid: RFC 4791 grammar (is-not-defined alone, time-range xor text-match); otherwise any API value
func randCalCompFilter(r *RNG, depth int, valid bool) caldav.CompFilter {
	f := caldav.CompFilter{Name: r.Pick(cwCompNames)}
	if r.Chance(20) {
		f.IsNotDefined = true
		if valid {
			return f
		}
	}
	if r.Chance(40) {
		f.Start, f.End = randInstant(r, 30), randInstant(r, 30)
	}
	for i := r.Range(0, 2); i > 0; i-- {
		pf := caldav.PropFilter{Name: r.Pick(cwPropNames)}
		if r.Chance(25) {
			pf.IsNotDefined = true
			if valid {
				f.Props = append(f.Props, pf)
				continue
			}
		}
		switch r.Intn(4) {
		case 0:
			pf.Start, pf.End = randInstant(r, 30), randInstant(r, 30)
		case 1, 2:
			pf.TextMatch = randCalTM(r)
		}
		if !valid && r.Chance(30) {
			pf.TextMatch = randCalTM(r)
			pf.Start = randInstant(r, 0)
		}
		for j := r.Range(0, 2); j > 0; j-- {
			pm := caldav.ParamFilter{Name: r.Pick([]string{"TZID", "PARTSTAT", "X-é", ""})}
			if r.Chance(40) {
				pm.IsNotDefined = true
				if !valid && r.Chance(50) {
					pm.TextMatch = randCalTM(r)
				}
			} else if r.Chance(70) {
				pm.TextMatch = randCalTM(r)
			}
			pf.ParamFilter = append(pf.ParamFilter, pm)
		}
		f.Props = append(f.Props, pf)
	}
	if depth > 0 {
		for i := r.Range(0, 2); i > 0; i-- {
			f.Comps = append(f.Comps, randCalCompFilter(r, depth-1, valid))
		}
	}
	return f
}

func randCalCompReq(r *RNG, depth int, valid bool) caldav.CalendarCompRequest {
	c := caldav.CalendarCompRequest{Name: r.Pick(cwCompNames)}
	if r.Chance(30) {
		c.AllProps = true
	}
	if !c.AllProps || (!valid && r.Chance(30)) {
		for i := r.Range(0, 3); i > 0; i-- {
			c.Props = append(c.Props, r.Pick(cwPropNames))
		}
	}
	if r.Chance(30) {
		c.AllComps = true
	}
	if depth > 0 && (!c.AllComps || (!valid && r.Chance(30))) {
		for i := r.Range(0, 2); i > 0; i-- {
			c.Comps = append(c.Comps, randCalCompReq(r, depth-1, valid))
		}
	}
	return c
}

func randCalQuery(r *RNG, valid bool) *caldav.CalendarQuery {
	q := &caldav.CalendarQuery{CompRequest: randCalCompReq(r, 2, valid), CompFilter: randCalCompFilter(r, r.Range(0, 3), valid)}
	if r.Chance(35) {
		q.CompRequest.Expand = &caldav.CalendarExpandRequest{Start: randInstant(r, 0), End: randInstant(r, 0)}
	}
	return q
}

func famCalWire(o *Out, r *RNG, thorough bool) {
	// every flag at every level, alone (each field needs its own witness)
	tm := &caldav.TextMatch{Text: " a<b ", NegateCondition: true}
	t1 := time.Date(2024, 3, 10, 2, 30, 0, 500, time.FixedZone("PST", -8*3600))
	t2 := time.Date(2024, 3, 11, 0, 0, 0, 0, time.FixedZone("IST", 5*3600+1800))
	singles := []caldav.CalendarQuery{
		{CompFilter: caldav.CompFilter{Name: "VCALENDAR"}},
		{CompFilter: caldav.CompFilter{Name: "VCALENDAR", Comps: []caldav.CompFilter{{Name: "VTODO", IsNotDefined: true}}}},
		{CompFilter: caldav.CompFilter{Name: "VCALENDAR", Comps: []caldav.CompFilter{{Name: "VEVENT", Props: []caldav.PropFilter{{Name: "ATTENDEE", IsNotDefined: true}}}}}},
		{CompFilter: caldav.CompFilter{Name: "VCALENDAR", Comps: []caldav.CompFilter{{Name: "VEVENT", Props: []caldav.PropFilter{{Name: "ATTENDEE", ParamFilter: []caldav.ParamFilter{{Name: "PARTSTAT", IsNotDefined: true}}}}}}}},
		{CompFilter: caldav.CompFilter{Name: "VCALENDAR", Comps: []caldav.CompFilter{{Name: "VEVENT", Props: []caldav.PropFilter{{Name: "SUMMARY", TextMatch: tm}}}}}},
		{CompFilter: caldav.CompFilter{Name: "VCALENDAR", Comps: []caldav.CompFilter{{Name: "VEVENT", Props: []caldav.PropFilter{{Name: "ATTENDEE", ParamFilter: []caldav.ParamFilter{{Name: "CN", TextMatch: tm}}}}}}}},
		{CompFilter: caldav.CompFilter{Name: "VCALENDAR", Comps: []caldav.CompFilter{{Name: "VEVENT", Start: t1, End: t2}}}},
		{CompFilter: caldav.CompFilter{Name: "VCALENDAR", Comps: []caldav.CompFilter{{Name: "VEVENT", Start: t1}}}},
		{CompFilter: caldav.CompFilter{Name: "VCALENDAR", Comps: []caldav.CompFilter{{Name: "VEVENT", End: t2}}}},
		{CompFilter: caldav.CompFilter{Name: "VCALENDAR", Comps: []caldav.CompFilter{{Name: "VEVENT", Props: []caldav.PropFilter{{Name: "DTSTART", Start: t1, End: t2}}}}}},
		{CompFilter: caldav.CompFilter{Name: "VCALENDAR"}, CompRequest: caldav.CalendarCompRequest{Name: "VCALENDAR", Props: []string{"VERSION"},
			Comps: []caldav.CalendarCompRequest{{Name: "VEVENT", Props: []string{"SUMMARY", "UID"}}, {Name: "VTIMEZONE", AllProps: true, AllComps: true}}}},
		{CompFilter: caldav.CompFilter{Name: "VCALENDAR"}, CompRequest: caldav.CalendarCompRequest{Name: "VCALENDAR", AllProps: true, AllComps: true,
			Expand: &caldav.CalendarExpandRequest{Start: t1, End: t2}}},
	}
	for i := range singles {
		q := &singles[i]
		emitCalEnc(o, q)
		emitCalDec(o, randStyle(r).doc(calQueryDoc(r, q, "")), sxCalQuery(q))
		emitCalDec(o, randStyle(r).doc(calQueryDoc(r, q, "explicit-defaults")), sxCalQuery(q))
	}
	n := 2000
	if thorough {
		n = 40000
	}
	muts := []string{"", "", "", "", "", "", "explicit-defaults", "explicit-defaults", "bad-negate", "bad-date", "bad-date-2", "empty-date", "empty-date-2", "empty-expand", "local-date", "bad-expand",
		"comp-ind-with-range", "comp-ind-with-prop", "comp-ind-with-comp", "prop-ind-with-match", "prop-ind-with-range", "prop-ind-with-param",
		"param-ind-with-match", "allprop-and-prop", "allcomp-and-comp", "nested-allprop-and-prop", "nested-allcomp-and-comp", "deep-allprop-and-prop", "wrong-root", "wrong-root-ns", "wrong-filter-ns", "wrong-compfilter-ns",
		"wrong-nested-ns", "wrong-comp-ns", "wrong-dataprop-ns", "no-filter", "no-prop", "dav-allprop", "dav-propname", "no-calendar-data",
		"empty-calendar-data", "empty-calendar-data", "nocomp-expand", "nocomp-expand", "two-time-ranges", "two-filters"}
	for i := 0; i < n; i++ {
		emitCalEnc(o, randCalQuery(r, i%8 != 0))
		qd := randCalQuery(r, true)
		mut := muts[r.Intn(len(muts))]
		intended := "nil"
		if mut == "" || mut == "explicit-defaults" {
			intended = sxCalQuery(qd)
		}
		emitCalDec(o, randStyle(r).doc(calQueryDoc(r, qd, mut)), intended)
		if i%4 == 0 {
			var paths []string
			for j := r.Range(0, 4); j > 0; j-- {
				paths = append(paths, "/u/cal/a/"+r.Pick([]string{"x.ics", "a b.ics", "é#1?.ics", "%41.ics", "x.ics", "a:b.ics"}))
			}
			mg := &caldav.CalendarMultiGet{Paths: paths, CompRequest: randCalCompReq(r, 1, true)}
			if r.Chance(30) {
				mg.CompRequest.Expand = &caldav.CalendarExpandRequest{Start: randInstant(r, 0), End: randInstant(r, 0)}
			}
			emitCalMg(o, r, "/u/cal/a/", mg)
		}
	}
}

func init() { families["calwire"] = famCalWire }
