#!/bin/bash
# seedconfirm.sh <Cxx> <seeded-id> <demo-relative-path> <demo-run-pattern> <pkg>
# Confirms a sub-agent's change in its scratch worktree /tmp/wt-<Cxx>: builds, the existing tests pass, the demo fails
# on the changed tree and passes on the original; then keeps it as /verif/seeded/<seeded-id>/.
set -u
P=$1; SID=$2; DEMO=$3; RUN=$4; PKG=$5
WT=${6:-/tmp/wt-$P}
export GOFLAGS=-mod=mod GOPROXY=off GOSUMDB=off GOTOOLCHAIN=local
cd $WT || exit 2
git diff -- . > /tmp/$SID.patch
[ -s /tmp/$SID.patch ] || { echo "empty patch"; exit 2; }
echo "== build"; go build ./... || exit 1
echo "== existing tests (demo moved away)"; mv $DEMO /tmp/$SID.demo.go
go test -vet=off -count=1 ./... 2>&1 | grep -v "no test files"; T=${PIPESTATUS[0]}
mv /tmp/$SID.demo.go $DEMO
[ $T -eq 0 ] || { echo "existing tests FAIL"; exit 1; }
echo "== demo on changed tree (must fail)"; go test -vet=off -count=1 -run "$RUN" $PKG > /tmp/$SID.demo.changed.txt 2>&1; A=$?
tail -15 /tmp/$SID.demo.changed.txt
git apply -R /tmp/$SID.patch || { echo "cannot reverse patch"; exit 2; }
echo "== demo on original tree (must pass)"; go test -vet=off -count=1 -run "$RUN" $PKG > /tmp/$SID.demo.orig.txt 2>&1; B=$?
tail -3 /tmp/$SID.demo.orig.txt
git apply /tmp/$SID.patch
if [ $A -ne 0 ] && [ $B -eq 0 ]; then
  mkdir -p /verif/seeded/$SID
  cp /tmp/$SID.patch /verif/seeded/$SID/patch.diff
  cp $DEMO /verif/seeded/$SID/$(basename $DEMO).txt
  cp /tmp/$SID.demo.changed.txt /verif/seeded/$SID/demo-output-changed.txt
  cp /tmp/$SID.demo.orig.txt /verif/seeded/$SID/demo-output-original.txt
  echo "CONFIRMED -> /verif/seeded/$SID"
else
  echo "NOT CONFIRMED (changed exit $A, original exit $B)"
fi
rm -f /tmp/$SID.patch /tmp/$SID.demo.*.txt
