#!/usr/bin/env python3
"""Prints the markdown table of kept seeded changes and which checks report them (from seeded/*/meta.json, result.json)."""
import json, glob, os
rows = []
for d in sorted(glob.glob("/verif/seeded/*/")):
    try:
        m = json.load(open(d + "meta.json"))
    except Exception:
        continue
    r = json.load(open(d + "result.json")) if os.path.exists(d + "result.json") else {}
    det = r.get("detected_by", [])
    classes = []
    for c in det:
        for l in r["results"][c]["lines"]:
            if "{" in l:
                classes.append(c + ": " + l[l.index("{"):l.rindex("}") + 1])
            elif "no-failing-input-found" in l:
                classes.append(c + ": broken tie, no failing input found")
    rows.append((m["id"], m["property"], ", ".join(m["files"]), m["what"], ", ".join(det) or "**none**", "; ".join(classes), m.get("note", "")))
print("| id | property | file | change | reported by | classes | note |")
print("|---|---|---|---|---|---|---|")
for r in rows:
    print("| " + " | ".join(x.replace("|", "\\|").replace("\n", " ") for x in r) + " |")
