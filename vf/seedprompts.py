#!/usr/bin/env python3
"""Writes the prompts for a round of seeded changes: vf/seedprompts.py <round-number>

One prompt per property under /tmp/prompt<N>-Cxx.txt for a fresh sub-agent that is given ONLY the property text, the
list of changes to /repo already tried for that property (descriptions of source changes, nothing about the checks)
and its own scratch worktree /tmp/wt<N>-Cxx (created here from /repo's HEAD).  Nothing from /verif is shown.
"""
import json, glob, subprocess, sys
N = sys.argv[1]
props = {}
for l in open('/verif/properties.jsonl'):
    d = json.loads(l)
    props[d['id']] = "Property %s: %s\n\nStatement: %s\n\nQuantified over: %s" % (d['id'], d['title'], d['statement'], d['quantifier']['text'])
tried = {}
for f in sorted(glob.glob('/verif/seeded/*/meta.json')):
    m = json.load(open(f))
    tried.setdefault(m['property'], []).append("- " + m['files'][0] + ": " + m['what'])
base = '''You are working on a scratch git worktree of the Go library emersion/go-webdav located at /tmp/wt{N}-{ID}. Do ALL your work inside that directory. Do NOT read, write or run anything under /repo, /verif or any other /tmp/wt* directory. NEVER use `git stash` (it is shared between worktrees).

Every shell command that runs Go needs this environment (the sandbox is offline):
  export GOFLAGS=-mod=mod GOPROXY=off GOSUMDB=off GOTOOLCHAIN=local

Below is a semantic property the library is supposed to satisfy.

{TEXT}

YOUR TASK: produce TWO DIFFERENT, INDEPENDENT realistic changes (call them A and B) to the library's non-test Go source, each of which BREAKS this property on its own - the kind of defect a maintainer could plausibly introduce during a refactor, optimisation or feature addition. A and B must be in different functions and break different clauses of the property (or the same clause through different mechanisms). Requirements for EACH change, applied ALONE to the original tree:
 (a) the code still compiles: `go build ./...`
 (b) the existing test suite still passes unchanged: `go test -vet=off -count=1 ./...`
 (c) the breakage needs something SPECIFIC to manifest (particular inputs, header values, tree shapes, orders of operations, characters, sizes, combinations of two features ...) - it must not make every request fail; a casual reviewer and a smoke test should miss it.
 (d) keep it small (a few lines in one or two files); do not edit or add *_test.go files as part of the change; do not touch go.mod/go.sum.

The following changes have ALREADY been tried by others - do NOT repeat them or close variants; pick DIFFERENT functions, clauses, packages or mechanisms:
{TRIED}

Think about which clauses and which quantified inputs of the property text are NOT touched by the list above and aim at those. {EXTRA}Read the relevant source first so the changes are subtle and plausible. Make each trigger as narrow as you can while it is still a real violation of the property text.

Work on one change at a time:
 1. Make change A. Write a demonstration Go test file demo_{ID}_A_test.go in the package directory it needs, that FAILS with change A and PASSES on the original code, with a failure message that shows the concrete violation (input and wrong observable result). Save the source change alone: `cd /tmp/wt{N}-{ID} && git diff > /tmp/wt{N}-{ID}/patchA.diff` (the demo file is untracked; never `git add` it). Verify both directions: `git apply -R patchA.diff`, run demo A on the original (must pass), and LEAVE the tree reverted.
 2. On the now original tree make change B, with demo_{ID}_B_test.go, `git diff > /tmp/wt{N}-{ID}/patchB.diff`, verify both directions the same way, and finally `git apply -R patchB.diff` so that the worktree ends in the ORIGINAL state with both demo files and both patch files present.
 Make sure demo A does not fail on the original tree and does not depend on change B, and vice versa (each demo must compile against the original tree). A demo must not need the race detector or special flags unless the property is about concurrency.

Report back, concisely, for A and for B: (1) the patch path; (2) the demo path and the exact command to run it (use -run with a pattern that selects only that demo); (3) two or three sentences: what the change is, which property clause it breaks, and exactly which input/state/history triggers it; (4) observed results of build, existing suite, and the demo on changed vs original tree.'''
extra = {
 "5": "Prefer the glue between functions over the obvious core: error paths, default values, less-used API entry points and options, rarely-set struct fields, the second of two similar code paths (the CardDAV twin of a CalDAV function, MOVE next to COPY, HEAD next to GET), header or attribute handling, and interactions of two features. ",
 "7": "Prefer boundary values (zero, negative and very large numbers; empty strings, lists and bodies; the first and the last element), rarely used public entry points and options of the clients and servers, HEAD next to GET, DELETE and MKCOL on the CalDAV/CardDAV servers, and small 'harmless' API conveniences (defaults filled in, values normalised, lenient parsing). ",
 "8": "Prefer HTTP-level details (response headers such as Allow, DAV, Content-Type, Content-Length, Location and ETag; request header parsing; the choice among 4xx codes), OPTIONS and the capability / support queries of the clients, properties of COLLECTIONS rather than objects (resourcetype, displayname, descriptions, supported sets, sizes), and changes that only affect the second and later items of a list, or only the last one. ",
 "9": "Prefer (1) 'defensive' validation, limits and normalisation that reject, truncate or rewrite LEGITIMATE inputs (lengths, counts, depths, character sets, letter case, duplicates, ordering), (2) state outside a function's arguments: reuse of buffers, slices, maps or package-level values between calls or between items of a list, aliasing between a caller's value and what the library keeps or returns, values captured by closures, dependence on map iteration order, (3) the less common of two encodings of the same thing (a header repeated on several lines, an XML namespace declared as default vs. prefixed, absolute-URI vs. path-only hrefs, percent-encoded vs. literal characters), and (4) behaviour that differs only when an optional value is EMPTY or ZERO. ",
 "10": "Prefer (1) TWO COOPERATING SITES that each look fine alone: a helper whose contract shifts slightly (what it returns for an edge case, whether it normalises, whether its result aliases its argument) while one of its callers still relies on the old contract, or a producer and a consumer of the same value that stop agreeing; (2) FAULTS AT A PARTICULAR POINT: an I/O or backend error in the MIDDLE of a multi-step operation (after the first member of a listing, after a partial copy, after the status line was written, between reading the body and storing it), a cancelled context, an early EOF; (3) behaviour that depends on what an EARLIER request or call left behind; (4) the rarely exercised branches of the code: non-default ports or schemes, paths at the very root, names with unusual but legal bytes, the LAST of several alternatives in a switch, fallbacks when an optional struct field is nil. ",
 "11": "IMPORTANT for this round: the change must NOT ADD code paths - no new if/else/switch/case/loop, no new helper function, no new index or slice expression, no new struct field or package-level variable. It must MODIFY what is already there: an operator or a comparison (< vs <=, && vs ||, == vs !=), a constant or literal (a status code, a name, a namespace, a layout string, a default), the ORDER of two existing statements or of two existing checks, which of two existing variables is used (src vs dst, the request path vs the cleaned path, the loop variable vs the outer one), an argument dropped or swapped, a normalisation applied one step too early or too late, a struct tag detail, a value passed by pointer vs copied. The best candidates are lines that the obvious tests execute all the time but whose result differs only for unusual inputs. ",
 "6": "Prefer changes whose effect shows only through a SEQUENCE of operations or a COMBINATION of two inputs that are each harmless alone, and changes in helper functions shared by several callers where only one caller's behaviour changes. ",
}.get(N, "")
for k in props:
    subprocess.run(["git", "-C", "/repo", "worktree", "add", "-q", "--detach", "/tmp/wt%s-%s" % (N, k), "HEAD"])
    open('/tmp/prompt%s-%s.txt' % (N, k), 'w').write(base.replace('{N}', N).replace('{ID}', k).replace('{TEXT}', props[k]).replace('{TRIED}', "\n".join(tried.get(k, []))).replace('{EXTRA}', extra))
print(len(props), "prompts written")
