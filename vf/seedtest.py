#!/usr/bin/env python3
"""Run the registered checks against a kept seeded change.

  vf/seedtest.py <seeded-id> [--checks C01,C02] [--tier quick]

Applies /verif/seeded/<id>/patch.diff to /repo (git apply), runs the checks named in meta.json ("property" first,
then any in --checks), records which report a violation, and restores /repo (git checkout -- .) whatever happens.
The result is written to /verif/seeded/<id>/result.json.  Never commits anything in /repo.
"""
import json, os, subprocess, sys, time

# (a scratch copy of /verif with its own clone of /repo may run the same script: the regression over all kept changes
# runs several such copies side by side, see DESIGN section 15)
ROOT = os.path.dirname(os.path.dirname(os.path.abspath(__file__)))
REPO = os.environ.get("VERIF_REPO", "/repo")


def sh(cmd, **kw):
    return subprocess.run(cmd, shell=True, capture_output=True, text=True, **kw)


def main():
    sid = sys.argv[1]
    tier = "quick"
    extra = []
    args = sys.argv[2:]
    while args:
        a = args.pop(0)
        if a == "--checks":
            extra = args.pop(0).split(",")
        elif a == "--tier":
            tier = args.pop(0)
    d = os.path.join(ROOT, "seeded", sid)
    meta = json.load(open(os.path.join(d, "meta.json")))
    checks = [meta["property"]] + [c for c in extra if c != meta["property"]]
    st = sh(f"git -C {REPO} status --porcelain")
    if st.stdout.strip():
        print("refusing: /repo is not clean:\n" + st.stdout)
        sys.exit(2)
    ap = sh(f"git -C {REPO} apply {d}/patch.diff")
    if ap.returncode != 0:
        print("patch does not apply:\n" + ap.stderr)
        sys.exit(2)
    results = {}
    try:
        for c in checks:
            t0 = time.time()
            r = sh(f"{ROOT}/check {c} --tier {tier}")
            lines = [l for l in r.stdout.splitlines() if l.startswith("VIOLATION") or l.startswith(c + " tier=")]
            results[c] = {"exit": r.returncode, "lines": lines, "seconds": round(time.time() - t0, 1)}
            print(c, "exit", r.returncode, *lines, sep="\n  ")
    finally:
        sh(f"git -C {REPO} checkout -- .")
        # files a patch may have added
        sh(f"git -C {REPO} clean -fdq")
    detected = [c for c, v in results.items() if v["exit"] != 0]
    out = {"seeded": sid, "property": meta["property"], "tier": tier, "detected_by": detected, "results": results}
    json.dump(out, open(os.path.join(d, "result.json"), "w"), indent=1)
    print("detected by:", detected or "NONE")


if __name__ == "__main__":
    main()
