#!/usr/bin/env python3
"""Regenerates MANIFEST.json from props_index.json + vf/manifest_meta.json (kept in one place so it stays valid)."""
import json, os
ROOT = os.path.dirname(os.path.dirname(os.path.abspath(__file__)))
idx = json.load(open(os.path.join(ROOT, "props_index.json")))
meta = json.load(open(os.path.join(ROOT, "vf", "manifest_meta.json")))
allp = [json.loads(l)["id"] for l in open(os.path.join(ROOT, "properties.jsonl"))]
checks = []
for pid in allp:
    if pid not in idx:
        continue
    c = idx[pid]
    checks.append({
        "property_id": pid,
        "quick_cmd": "./check %s --tier quick" % pid,
        "thorough_cmd": "./check %s --tier thorough" % pid,
        "evidence_file": "/verif/evidence/%s.json" % pid,
        "replay_cmd_template": "./check %s --replay {path}" % pid,
        "engine": "lean4-proof+correspondence",
        "level_claimed": {"category": "proof", "text": c["level_text"], "design_ref": c.get("design_ref", "DESIGN.md §5 " + pid)},
        "level_note": c["level_note"],
        "technique": c.get("technique", "Lean 4 machine-checked proof over an executable model + differential correspondence with the Go code"),
    })
na = [{"property_id": p, "reason": meta["not_applicable"].get(p, "not yet covered by the machinery at this commit (work in progress; no technique switch)")}
      for p in allp if p not in idx]
m = {
    "version": 1,
    "setup_cmd": "./setup.sh",
    "hooks": meta["hooks"],
    "engines": meta["engines"],
    "checks": checks,
    "notes": meta["notes"],
    "not_applicable": na,
}
json.dump(m, open(os.path.join(ROOT, "MANIFEST.json"), "w"), indent=1)
print("MANIFEST.json:", len(checks), "checks,", len(na), "not claimed")
