#!/bin/bash
# mkscratch.sh DIR : a scratch copy of /verif (with its build output) and a clone of /repo under DIR, wired together
# (harness go.mod replace -> DIR/repo; run checks there with VERIF_REPO=DIR/repo DIR/verif/check ...).
# Used for running kept seeded changes side by side without touching /repo.  Remove DIR when done.
set -e
D=$1
rm -rf $D; mkdir -p $D
rsync -a --exclude .git --exclude runs --exclude replays /verif/ $D/verif/
git clone -q /repo $D/repo
sed -i "s#=> /repo#=> $D/repo#" $D/verif/harness/go.mod
echo "scratch at $D (VERIF_REPO=$D/repo $D/verif/check Cxx --tier quick)"
