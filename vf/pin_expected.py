#!/usr/bin/env python3
"""One-off, run by hand on the PINNED tree only (never by a check): writes lean/GoWebdav/Expected/Pinned*.lean - a reviewed
snapshot of the fact tables the extractor regenerates on every run (XML struct tags, status-code sites, panic sites,
run-time-checked accesses, receiver-state writes, package-level variables) - and one tiny module per table under
lean/GoWebdav/Props/Pin/ holding the kernel-checked equality  Generated.<table> = Expected.<table>.
A changed struct tag, a new panic(), a new x[i], a new write through a handler's receiver or a new package-level variable
then breaks a named obligation of every property that lists the table (props_index.json)."""
import os, re
ROOT = os.path.dirname(os.path.dirname(os.path.abspath(__file__)))
G = os.path.join(ROOT, "lean", "GoWebdav", "Generated")
E = os.path.join(ROOT, "lean", "GoWebdav", "Expected")
P = os.path.join(ROOT, "lean", "GoWebdav", "Props", "Pin")
os.makedirs(P, exist_ok=True)
# tables that are obligations (one Props/Pin module each).  The per-file ones are aggregates in a form that renaming an
# identifier or moving code between the functions of one file does not change (status literals, panic() calls and the
# SHAPES of run-time-checked accesses per source file; the receiver TYPES that are written through).
KINDS = ["Schema", "StatusByFile", "PanicsByFile", "IndexShapesByFile", "ReceiverWriteTypes", "Globals"]
# snapshot only (no obligation): the per-function texts the guard table Expected/IndexSiteGuards.lean is written against
SNAPSHOT_ONLY = ["IndexSites"]
PKGS = ["internal", "webdav", "caldav", "carddav"]

def defs(path):
    """{name: full text of the def (with its doc comment)}"""
    txt = open(path).read()
    out = {}
    for m in re.finditer(r"((?:/--.*?-/\n)?def (\w+) :[^\n]*(?:\n(?!def |/--|end ).*)*)", txt):
        out[m.group(2)] = m.group(1).rstrip() + "\n"
    return out

allg = {}
allg.update(defs(os.path.join(G, "Schema.lean")))
allg.update(defs(os.path.join(G, "Facts.lean")))
body = ["/-! PINNED snapshot (vf/pin_expected.py, run by hand on the pinned tree; reviewed): the fact tables of the pinned go-webdav",
        "    sources.  The extractor regenerates `Generated.*` from /repo on every run; `Props/Pin/*.lean` hold the equalities. -/",
        "namespace GoWebdav.Expected.Pinned", ""]
names = []
for pk in PKGS:
    for k in KINDS:
        n = pk + k
        if n not in allg:
            raise SystemExit("missing generated table " + n)
        body.append(allg[n])
        names.append(n)
for pk in PKGS:
    for k in SNAPSHOT_ONLY:
        body.append(allg[pk + k])
body.append("end GoWebdav.Expected.Pinned")
open(os.path.join(E, "Pinned.lean"), "w").write("\n".join(body) + "\n")
for old in os.listdir(P):
    if old.endswith(".lean") and old != "IndexGuards.lean":
        os.remove(os.path.join(P, old))
for n in names:
    src = "Schema" if n.endswith("Schema") else "Facts"
    mod = n[0].upper() + n[1:]
    open(os.path.join(P, mod + ".lean"), "w").write(
        "import GoWebdav.Generated.%s\nimport GoWebdav.Expected.Pinned\n"
        "/-! Tie A: the regenerated table `%s` equals the pinned one (kernel-checked, `rfl` on literals). -/\n"
        "namespace GoWebdav.Props.Pin\n\n"
        "theorem pin_%s : Generated.%s = Expected.Pinned.%s := by decide\n\n"
        "end GoWebdav.Props.Pin\n" % (src, n, n, n, n))
print("pinned", len(names), "tables")
