"""Coverage gate of the correspondence (tie B).

The correspondence check compares the model with the code only on the inputs the generators produce.  A statement of
the current source that no generated input executes is a statement about which the tie says nothing - and a changed
tree is exactly where such statements appear (a new special case, a new early return, a new error branch).  The gate
makes that visible: the harness is built with Go's statement-coverage counters in go-webdav's packages, and for the
functions a property OWNS (props_index.json, "owns": the functions its model mirrors) the number of STATEMENTS in
blocks the property's families never executed, summed per source file, must not exceed the sum recorded for the owned
functions of that file on the pinned tree (vf/cov_baseline.json: per function the maximum over several seeds, so a
statement that is reached only sometimes is already counted there).  Counting statements per file rather than pinning
block texts keeps a reworded message, a renamed variable, restructured control flow or code moved into a helper from
raising an alarm as long as nothing new is left unexecuted.

An excess is first escalated (the caller re-runs the families with two more seeds and merges the counters); what stays
unexecuted is reported as a broken correspondence naming the function and the block texts.
"""
import bisect, json, os, re, subprocess

MODULE = "github.com/emersion/go-webdav/"
SKIP = ("verifharness/", "export_verif.go")


def profile(covdirs, goenv, log):
    """Merged block counters of the given GOCOVERDIRs: {(relfile, sl, sc, el, ec): (nstmts, count)}.
    Each directory is converted on its own and the counters are added here (directories written by differently built
    binaries - the race-detector build counts atomically - cannot be merged by the Go tool itself)."""
    dirs = [d for d in covdirs if d and os.path.isdir(d) and os.listdir(d)]
    if not dirs:
        return None
    prof = {}
    ok = False
    for d in dirs:
        out = os.path.join(d, "profile.txt")
        p = subprocess.run(["go", "tool", "covdata", "textfmt", "-i=" + d, "-o", out], env=goenv,
                           stdout=subprocess.PIPE, stderr=subprocess.PIPE, text=True)
        if p.returncode != 0 or not os.path.exists(out):
            log.append("go tool covdata failed on %s: %s" % (d, p.stderr[-300:]))
            continue
        ok = True
        for line in open(out):
            m = re.match(r"(\S+):(\d+)\.(\d+),(\d+)\.(\d+) (\d+) (\d+)$", line.strip())
            if not m or not m.group(1).startswith(MODULE):
                continue
            rel = m.group(1)[len(MODULE):]
            if any(x in rel for x in SKIP):
                continue
            k = (rel, int(m.group(2)), int(m.group(3)), int(m.group(4)), int(m.group(5)))
            n, c = int(m.group(6)), int(m.group(7))
            old = prof.get(k)
            prof[k] = (n, c + (old[1] if old else 0))
    return prof if ok else None


_FUNC = re.compile(r"^func (?:\(\s*\w*\s*\*?(\w+)\s*\) )?(\w+)")


def func_index(repo, rel, cache={}):
    key = (repo, rel)
    if key not in cache:
        idx = []
        try:
            lines = open(os.path.join(repo, rel), errors="replace").read().split("\n")
        except OSError:
            lines = []
        for i, l in enumerate(lines, 1):
            m = _FUNC.match(l)
            if m:
                idx.append((i, (m.group(1) + "." if m.group(1) else "") + m.group(2)))
        cache[key] = (idx, lines)
    return cache[key]


def func_of(repo, rel, line):
    idx, _ = func_index(repo, rel)
    i = bisect.bisect_right([x[0] for x in idx], line) - 1
    return idx[i][1] if i >= 0 else "?"


def block_text(repo, rel, k):
    _, lines = func_index(repo, rel)
    _, sl, sc, el, ec = k
    seg = lines[sl - 1:el]
    if not seg:
        return ""
    seg = list(seg)
    seg[-1] = seg[-1][:ec - 1] if sl != el else seg[-1][:ec - 1]
    seg[0] = seg[0][sc - 1:] if len(seg[0]) >= sc - 1 else seg[0]
    return re.sub(r"\s+", " ", " ".join(seg)).strip()[:160]


def owned(owns, rel, fn):
    for pat in owns:
        f, _, rx = pat.partition(":")
        if f == rel and re.fullmatch(rx or ".*", fn):
            return True
    return False


def observe(repo, prof, owns, known_functions=None):
    """{"file:func": {"uncovered": statements in never-executed blocks, "stmts": all statements, "texts": [...]}} for the
    owned functions.  A function the pinned tree does not have (a new helper) counts as owned by every property that
    owns something in its file.  Statements rather than blocks are counted: restructuring control flow splits and merges
    blocks but does not change how many statements are never executed."""
    obs = {}
    owned_files = {pat.partition(":")[0] for pat in owns}
    for k, (n, c) in sorted(prof.items()):
        rel = k[0]
        fn = func_of(repo, rel, k[1])
        new_helper = known_functions is not None and rel in owned_files and (rel + ":" + fn) not in known_functions
        if not owned(owns, rel, fn) and not new_helper:
            continue
        e = obs.setdefault(rel + ":" + fn, {"uncovered": 0, "stmts": 0, "texts": []})
        e["stmts"] += n
        if c == 0 and n > 0:
            e["uncovered"] += n
            e["texts"].append("%s:%d: %s" % (rel, k[1], block_text(repo, rel, k)))
    return obs


def all_functions(repo, prof):
    return sorted({k[0] + ":" + func_of(repo, k[0], k[1]) for k in prof})


def load_baseline(root):
    try:
        return json.load(open(os.path.join(root, "vf", "cov_baseline.json")))
    except OSError:
        return None


def excess(pid, obs, baseline):
    """Source files in which the owned functions (and new helpers) together have more never-executed statements than the
    pinned tree ever showed for the owned functions of that file.  Aggregating per file lets code move between the
    functions of a file, or into a new helper, without an alarm; a new branch no input reaches adds statements."""
    base = (baseline or {}).get(pid, {})
    allowed, seen, funcs = {}, {}, {}
    for key, v in base.items():
        allowed[key.split(":")[0]] = allowed.get(key.split(":")[0], 0) + v
    for key, e in obs.items():
        f = key.split(":")[0]
        seen[f] = seen.get(f, 0) + e["uncovered"]
        if e["uncovered"] > base.get(key, 0):
            funcs.setdefault(f, []).append({"function": key, "never_executed_statements": e["uncovered"],
                                            "on_pinned_tree_at_most": base.get(key, 0), "unexecuted": e["texts"]})
    out = []
    for f in sorted(seen):
        if seen[f] > allowed.get(f, 0):
            out.append({"file": f, "never_executed_statements_in_owned_functions": seen[f],
                        "allowed_on_pinned_tree": allowed.get(f, 0), "functions_above_their_own_count": funcs.get(f, [])})
    return out
