#!/usr/bin/env python3
"""Rewrites section 15 of DESIGN.md (up to 15.1) from seeded/*/meta.json and result.json."""
import json, glob, os, re, subprocess
rows = []
for d in sorted(glob.glob("/verif/seeded/*/")):
    try:
        m = json.load(open(d + "meta.json"))
    except Exception:
        continue
    r = json.load(open(d + "result.json")) if os.path.exists(d + "result.json") else {}
    rows.append((m, r))
n = len(rows)
try:
    rerun = set(open("/verif/notes/regression-final-ids.txt").read().split()) & {m["id"] for m, r in rows}
except OSError:
    rerun = set()
missed = [m for m, r in rows if m.get("note", "").startswith("missed at first") or m.get("note", "").startswith("missed by")]
undetected = [m["id"] for m, r in rows if not r.get("detected_by")]
table = subprocess.run(["python3", "/verif/vf/seedtable.py"], capture_output=True, text=True).stdout
misstab = "| missed change | why it was missed, and what was added |\n|---|---|\n" + "\n".join(
    "| %s | %s |" % (m["id"], m["note"].replace("|", "\\|")) for m in missed)
text = f"""## 15. Seeded changes: which checks catch which

To measure the machinery against realistic breakage, fresh sub-agents were each given ONLY the text of one property
(statement and quantifier), the descriptions of the changes to `/repo` already tried for it, and their own scratch git
worktree of `/repo` — nothing from `/verif` — and asked for small, plausible changes that break the property, still
compile, pass the existing 46 tests and need something specific to manifest, each with a demonstration test that fails
on the changed tree and passes on the original.  Eleven rounds were run (`vf/seedprompts.py` writes the prompts and holds
the emphasis of each round verbatim): rounds 1–3 one change per agent (19 + 19 + 12 agents; round 2 asked for "a less
central code path", round 3 for a different clause or mechanism than those already tried), rounds 4–11 two independent
changes per agent for all 19 properties — round 5 glue code (error paths, defaults, the less-used twin of two similar
functions, rarely-set fields), round 6 effects that need a SEQUENCE of operations or a COMBINATION of inputs and helpers
shared by several callers, round 7 boundary values and rarely used entry points, round 8 HTTP-level details and
properties of collections, round 9 defensive validation, state outside a function's arguments and the less common of
two encodings, round 10 two cooperating sites that each look fine alone, faults at a particular point and what an
earlier request left behind, round 11 changes that ADD NO CODE PATH (an operator, a constant, the order of two
statements, which of two variables is used, a struct tag) — the kind neither a coverage gate nor a pinned inventory can
see.  Every returned change was confirmed by me in its worktree (`vf/seedconfirm.sh` / `vf/seedconfirm2.sh`: build,
existing suite, demo fails on the changed tree and passes on the original; one concurrency demo needs `-race`).
{n} distinct changes are kept under `seeded/<id>/` (`patch.diff` — rebased where a later `fix:` commit touched the same
lines, the original kept as `patch.orig*.diff` —, the demo test with its two outputs, `meta.json`, `result.json`);
three round-2 answers repeated a round-1 change and were not kept twice; one round-10 answer aimed at C05 is kept as
the C01 change it is.  `vf/seedtest.py <id>` applies a patch to a clone of `/repo`, runs the checks and restores it
(`vf/mkscratch.sh` makes scratch copies of `/verif` wired to their own clone, so that several run side by side and
`/repo` itself is never touched).

**Result: {"all %d are" % n if not undetected else "%d of %d are" % (n - len(undetected), n)} reported by the property's own quick check** — {n - len(missed)} at first try, {len(missed)} only after a
check was strengthened (per round, missed at first: 3 of 19, 8 of 16, 6 of 12, 9 of 38, 12 of 38, 7 of 38, 14 of 38,
14 of 38, about as many in round 9, 12 of 38 in round 10 with the machinery as it stood, 9 of 38 in round 11 with the
coverage gate and the pinned inventories in place — of the 12 round-10 misses those two mechanisms alone report 6).
Every miss was a gap in a generator (an input class nobody generated) or in a judge (a difference computed but
attributed to another property only); **no miss was a wrong theorem, and no strengthening loosened anything**.
After each round the kept changes were re-run (`vf/seedtest.py` over `seeded/*`); after round 11 all {n} were re-run
with plain-build verdicts, six scratch copies side by side (`notes/regression-final-ids.txt`; the first 125 before the pins
were changed to their per-file normal forms — the ten of those that had been reported by a pinned table only were run
again afterwards — the other 225 with the machinery exactly as committed){"" if not undetected else "; not reported: " + ", ".join(undetected)}.
Two changes are kept under another property than the one their author aimed at: C05-p (a backend change that breaks
C01, not the client/server agreement) and C17-h (it relied on the defect repaired by 7e3e4e3 to disclose the host path;
it still breaks C01).
How a change is reported: most by a judged violation class with a counterexample replay; table- or shape-changing ones
also (or only) by a proof obligation over the regenerated definitions or pinned tables (Tie A: `theorems=k/N`, e.g.
C18-d's package variable, C14-h's second receive on the upload channel, C14-p's new `s[0]`); some by a correspondence
mismatch or by source blocks no generated input executes (coverage gate) — these end in `no-failing-input-found`.  The
table is generated (`vf/seedtable.py`); "classes" are the violation classes the Lean judge printed.

{table}
What was strengthened, by miss (from `seeded/*/meta.json`):

{misstab}

Appendix D's table ("what kind of code change is caught by which link") still describes the division of labour:
table-shaped changes break Tie A (a regenerated definition under a theorem), decision-logic changes break Tie B on
the exhaustive grids, and everything else depends on the generators — which is exactly where all the misses were.
Two generator habits came out of the rounds and are now applied throughout: hidden variation (the same abstract
request is sent in several concrete spellings the model does not see — mount prefixes, root spellings, declared vs
undeclared body length, error types, enumeration case variants — because the property says the answer must not depend
on them) and reuse (the caller's values are described before a call and used for a second one; all operations of a
family run in one process, so state leaking between requests shows).

"""
s = open("/verif/DESIGN.md").read()
i = s.index("## 15. Seeded changes")
j = s.index("### 15.1")
open("/verif/DESIGN.md", "w").write(s[:i] + text + s[j:])
print("section 15 rewritten:", n, "changes,", len(missed), "missed at first,", len(undetected), "undetected")
