#!/usr/bin/env python3
"""seedmeta.py <sid> <property> <what> <trigger>  -- writes /verif/seeded/<sid>/meta.json (files are read from the patch)"""
import json, re, sys, glob, os
sid, prop, what, trigger = sys.argv[1:5]
d = f"/verif/seeded/{sid}"
files = sorted(set(re.findall(r"^\+\+\+ b/(\S+)", open(f"{d}/patch.diff").read(), re.M)))
demo = [os.path.basename(p) for p in glob.glob(f"{d}/demo_*")]
json.dump({"id": sid, "property": prop, "source": "fresh sub-agent given only the property text and its own scratch worktree of /repo",
           "files": files, "what": what, "trigger": trigger,
           "demo": f"{', '.join(demo)} (a Go test; fails on the changed tree, passes on the original; outputs in demo-output-*.txt)",
           "confirmed": "go build ok; existing test suite passes; demo fails on changed / passes on original (vf/seedconfirm.sh)"},
          open(f"{d}/meta.json", "w"), indent=1)
print("meta written", files)
