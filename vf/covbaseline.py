#!/usr/bin/env python3
"""Rebuilds vf/cov_baseline.json on the PINNED tree: vf/covbaseline.py [quick-seeds...] [--thorough seeds...]

Runs every check (VERIF_COV_BASELINE=1: no escalation) for the given seeds and records, per property and owned
function, the LARGEST number of never-executed blocks seen in any run, so that a block which is reached only with some
seeds is already allowed.  Only ever run on the unchanged tree; the checks never write this file.
"""
import glob, json, os, subprocess, sys
from concurrent.futures import ThreadPoolExecutor
ROOT = os.path.dirname(os.path.dirname(os.path.abspath(__file__)))
args = sys.argv[1:]
quick, thorough, cur = [], [], None
cur = quick
only = None
for a in args:
    if a == "--thorough":
        cur = thorough
    elif a.startswith("--only="):
        only = a[len("--only="):].split(",")
    else:
        cur.append(int(a))
pids = sorted(json.load(open(os.path.join(ROOT, "props_index.json"))))
if only:
    pids = [p for p in pids if p in only]   # (with COV_MERGE_OLD=1: the other properties' entries are kept)
for f in glob.glob(os.path.join(ROOT, "runs", "*", "covobs.*.json")):
    os.remove(f)
env = dict(os.environ, VERIF_COV_BASELINE="1")
def one(job):
    pid, tier, seed = job
    r = subprocess.run([os.path.join(ROOT, "check"), pid, "--tier", tier, "--seed", str(seed)], env=env, capture_output=True, text=True)
    return job, r.stdout.strip().split("\n")[-1]
jobs = [(p, "quick", s) for s in quick for p in pids] + [(p, "thorough", s) for s in thorough for p in pids]
with ThreadPoolExecutor(max_workers=4) as ex:
    for job, last in ex.map(one, jobs):
        print(job, last[:150], flush=True)
base = {}
path = os.path.join(ROOT, "vf", "cov_baseline.json")
if os.environ.get("COV_MERGE_OLD") and os.path.exists(path):
    base = json.load(open(path))
for f in glob.glob(os.path.join(ROOT, "runs", "*", "covobs.*.json")):
    pid = os.path.basename(os.path.dirname(f))
    b = base.setdefault(pid, {})
    o = json.load(open(f))
    for k, v in o["uncovered"].items():
        if v > b.get(k, 0):
            b[k] = v
    base["_functions"] = sorted(set(base.get("_functions", [])) | set(o["functions"]))
json.dump(base, open(path, "w"), indent=0, sort_keys=True)
print("baseline written:", {p: sum(v.values()) for p, v in sorted(base.items()) if p != "_functions"})
