#!/bin/bash
# seedconfirm2.sh SID WORKTREE PATCHFILE DEMO RUNPATTERN PKG
# For worktrees left in the ORIGINAL state with a patch file and demo files present (round 4 format).
set -u
SID=$1; WT=$2; PATCH=$3; DEMO=$4; RUN=$5; PKG=$6
export GOFLAGS=-mod=mod GOPROXY=off GOSUMDB=off GOTOOLCHAIN=local
cd $WT || exit 2
[ -z "$(git status --porcelain --untracked-files=no)" ] || { echo "worktree not in original state"; git status --short | head -3; exit 2; }
[ -s $PATCH ] || { echo "empty patch"; exit 2; }
mkdir -p /tmp/$SID.demos; for f in $(git ls-files --others --exclude-standard | grep "_test.go$"); do mkdir -p /tmp/$SID.demos/$(dirname $f); mv $f /tmp/$SID.demos/$f; done
git apply $PATCH || { echo "patch does not apply"; exit 2; }
echo "== build"; go build ./... || { git apply -R $PATCH; exit 1; }
echo "== existing tests"; go test -vet=off -count=1 ./... 2>&1 | grep -v "no test files"; T=${PIPESTATUS[0]}
# restore only this demo
mkdir -p $(dirname $DEMO); cp /tmp/$SID.demos/$DEMO $DEMO
echo "== demo on changed tree (must fail)"; go test -vet=off -count=1 -run "$RUN" $PKG > /tmp/$SID.changed.txt 2>&1; A=$?
tail -8 /tmp/$SID.changed.txt
git apply -R $PATCH
echo "== demo on original tree (must pass)"; go test -vet=off -count=1 -run "$RUN" $PKG > /tmp/$SID.orig.txt 2>&1; B=$?
tail -2 /tmp/$SID.orig.txt
# put all demos back
rm -f $DEMO; (cd /tmp/$SID.demos && find . -name "*_test.go" | while read f; do mkdir -p $WT/$(dirname $f); cp $f $WT/$f; done)
if [ $T -eq 0 ] && [ $A -ne 0 ] && [ $B -eq 0 ]; then
  mkdir -p /verif/seeded/$SID
  cp $PATCH /verif/seeded/$SID/patch.diff
  cp /tmp/$SID.demos/$DEMO /verif/seeded/$SID/$(basename $DEMO).txt
  cp /tmp/$SID.changed.txt /verif/seeded/$SID/demo-output-changed.txt
  cp /tmp/$SID.orig.txt /verif/seeded/$SID/demo-output-original.txt
  echo "CONFIRMED -> /verif/seeded/$SID"
else
  echo "NOT CONFIRMED (suite $T, changed $A, original $B)"
fi
rm -rf /tmp/$SID.demos /tmp/$SID.changed.txt /tmp/$SID.orig.txt
