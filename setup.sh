#!/bin/sh
# Build the framework from files on disk only (offline).
set -e
cd "$(dirname "$0")"
export GOFLAGS=-mod=mod GOPROXY=off GOSUMDB=off GOTOOLCHAIN=local CGO_ENABLED=0
if [ -d extract ]; then (cd extract && mkdir -p bin && go build -o bin/extract . && ./bin/extract /repo ../lean/GoWebdav/Generated); fi
(cd lean && lake build)
(cd harness && cp /repo/go.sum go.sum && mkdir -p bin && go build -tags verif -o bin/harness .)
echo setup-ok
