// extract: regenerates Lean definitions and fact tables from /repo's current Go sources (tie A).
//
// It only understands shapes whose translation is exact and fails loudly (exit 1) when a function it
// is asked to translate no longer has such a shape.
package main

import (
	"fmt"
	"go/ast"
	"go/parser"
	"go/token"
	"os"
	"path/filepath"
	"sort"
	"strconv"
	"strings"
)

type pkg struct {
	name  string
	dir   string
	files map[string]*ast.File
	fset  *token.FileSet
}

var failures []string

func fail(format string, a ...interface{}) {
	failures = append(failures, fmt.Sprintf(format, a...))
}

func loadPkg(repo, dir string) *pkg {
	fset := token.NewFileSet()
	p := &pkg{dir: dir, files: map[string]*ast.File{}, fset: fset}
	matches, _ := filepath.Glob(filepath.Join(repo, dir, "*.go"))
	sort.Strings(matches)
	for _, m := range matches {
		if strings.HasSuffix(m, "_test.go") || strings.HasSuffix(m, "_verif.go") {
			continue
		}
		f, err := parser.ParseFile(fset, m, nil, parser.ParseComments)
		if err != nil {
			fail("parse %s: %v", m, err)
			continue
		}
		if hasBuildTag(f, "verif") {
			continue
		}
		p.files[filepath.Base(m)] = f
		p.name = f.Name.Name
	}
	return p
}

func hasBuildTag(f *ast.File, tag string) bool {
	for _, cg := range f.Comments {
		if cg.Pos() > f.Package {
			break
		}
		for _, c := range cg.List {
			if strings.HasPrefix(c.Text, "//go:build") && strings.Contains(c.Text, tag) {
				return true
			}
		}
	}
	return false
}

func (p *pkg) sortedFiles() []string {
	var n []string
	for k := range p.files {
		n = append(n, k)
	}
	sort.Strings(n)
	return n
}

// findFunc finds a function or method (recv "" for plain functions; "*T"/"T" accepted for methods).
func (p *pkg) findFunc(recv, name string) *ast.FuncDecl {
	for _, fn := range p.sortedFiles() {
		for _, d := range p.files[fn].Decls {
			fd, ok := d.(*ast.FuncDecl)
			if !ok || fd.Name.Name != name {
				continue
			}
			r := ""
			if fd.Recv != nil && len(fd.Recv.List) == 1 {
				r = strings.TrimPrefix(exprString(fd.Recv.List[0].Type), "*")
			}
			if r == recv {
				return fd
			}
		}
	}
	return nil
}

// shapeString renders an expression with every identifier replaced by `_`: what is indexed by what kind of thing,
// independent of the names chosen (a renamed variable, receiver or field does not change a shape)
func shapeString(e ast.Expr) string {
	switch x := e.(type) {
	case *ast.Ident:
		return "_"
	case *ast.StarExpr:
		return "*" + shapeString(x.X)
	case *ast.ParenExpr:
		return "(" + shapeString(x.X) + ")"
	case *ast.SelectorExpr:
		return shapeString(x.X) + "._"
	case *ast.BasicLit:
		return x.Value
	case *ast.IndexExpr:
		return shapeString(x.X) + "[" + shapeString(x.Index) + "]"
	case *ast.SliceExpr:
		lo, hi := "", ""
		if x.Low != nil {
			lo = shapeString(x.Low)
		}
		if x.High != nil {
			hi = shapeString(x.High)
		}
		return shapeString(x.X) + "[" + lo + ":" + hi + "]"
	case *ast.CallExpr:
		return shapeString(x.Fun) + "()"
	case *ast.TypeAssertExpr:
		return shapeString(x.X) + ".(T)"
	case *ast.BinaryExpr:
		return shapeString(x.X) + x.Op.String() + shapeString(x.Y)
	case *ast.UnaryExpr:
		return x.Op.String() + shapeString(x.X)
	}
	return "?"
}

func exprString(e ast.Expr) string {
	switch x := e.(type) {
	case *ast.Ident:
		return x.Name
	case *ast.StarExpr:
		return "*" + exprString(x.X)
	case *ast.SelectorExpr:
		return exprString(x.X) + "." + x.Sel.Name
	case *ast.ArrayType:
		return "[]" + exprString(x.Elt)
	case *ast.BasicLit:
		return x.Value
	case *ast.StructType:
		return "struct{}"
	case *ast.CallExpr:
		var args []string
		for _, a := range x.Args {
			args = append(args, exprString(a))
		}
		return exprString(x.Fun) + "(" + strings.Join(args, ", ") + ")"
	case *ast.UnaryExpr:
		return x.Op.String() + exprString(x.X)
	case *ast.CompositeLit:
		var el []string
		for _, a := range x.Elts {
			el = append(el, exprString(a))
		}
		t := ""
		if x.Type != nil {
			t = exprString(x.Type)
		}
		return t + "{" + strings.Join(el, ", ") + "}"
	case *ast.KeyValueExpr:
		return exprString(x.Key) + ": " + exprString(x.Value)
	case *ast.InterfaceType:
		return "interface{}"
	case *ast.MapType:
		return "map[" + exprString(x.Key) + "]" + exprString(x.Value)
	case *ast.FuncType:
		return "func"
	case *ast.ChanType:
		return "chan " + exprString(x.Value)
	case *ast.BinaryExpr:
		return exprString(x.X) + " " + x.Op.String() + " " + exprString(x.Y)
	case *ast.ParenExpr:
		return "(" + exprString(x.X) + ")"
	case *ast.IndexExpr:
		return exprString(x.X) + "[" + exprString(x.Index) + "]"
	case *ast.FuncLit:
		return "func{…}"
	case *ast.TypeAssertExpr:
		return exprString(x.X) + ".(…)"
	case *ast.SliceExpr:
		return exprString(x.X) + "[:]"
	case *ast.Ellipsis:
		return "..."
	}
	return fmt.Sprintf("<%T>", e)
}

// ---- constants -------------------------------------------------------------------------------

// string and int constants of a package (incl. typed ones and iota blocks)
func (p *pkg) consts() (map[string]string, map[string]int) {
	strs := map[string]string{}
	ints := map[string]int{}
	for _, fn := range p.sortedFiles() {
		for _, d := range p.files[fn].Decls {
			gd, ok := d.(*ast.GenDecl)
			if !ok || gd.Tok != token.CONST {
				continue
			}
			var lastExpr ast.Expr
			for i, s := range gd.Specs {
				vs := s.(*ast.ValueSpec)
				for j, n := range vs.Names {
					var e ast.Expr
					if j < len(vs.Values) {
						e = vs.Values[j]
						lastExpr = e
					} else {
						e = lastExpr
					}
					if e == nil {
						continue
					}
					e = stripConv(e)
					switch x := e.(type) {
					case *ast.BasicLit:
						if x.Kind == token.STRING {
							if v, err := strconv.Unquote(x.Value); err == nil {
								strs[n.Name] = v
							}
						} else if x.Kind == token.INT {
							if v, err := strconv.Atoi(x.Value); err == nil {
								ints[n.Name] = v
							}
						}
					case *ast.Ident:
						if x.Name == "iota" {
							ints[n.Name] = i
						}
					case *ast.UnaryExpr:
						if bl, ok := x.X.(*ast.BasicLit); ok && x.Op == token.SUB && bl.Kind == token.INT {
							if v, err := strconv.Atoi(bl.Value); err == nil {
								ints[n.Name] = -v
							}
						}
					}
				}
			}
		}
	}
	return strs, ints
}

// T("x") / T(x) -> "x" / x
func stripConv(e ast.Expr) ast.Expr {
	if c, ok := e.(*ast.CallExpr); ok && len(c.Args) == 1 {
		if _, ok := c.Fun.(*ast.Ident); ok {
			return c.Args[0]
		}
	}
	return e
}

func leanStr(s string) string {
	var b strings.Builder
	b.WriteByte('"')
	for _, r := range s {
		switch {
		case r == '"':
			b.WriteString("\\\"")
		case r == '\\':
			b.WriteString("\\\\")
		case r == '\n':
			b.WriteString("\\n")
		case r == '\t':
			b.WriteString("\\t")
		case r < 0x20 || r == 0x7f:
			fmt.Fprintf(&b, "\\x%02x", r)
		default:
			b.WriteRune(r)
		}
	}
	b.WriteByte('"')
	return b.String()
}

func leanInt(n int) string {
	if n < 0 {
		return fmt.Sprintf("(%d)", n)
	}
	return fmt.Sprint(n)
}

// ---- switch-shaped codecs ----------------------------------------------------------------------

type caseArm struct {
	keys []ast.Expr
	body []ast.Stmt
}

func switchArms(fd *ast.FuncDecl) (tag ast.Expr, arms []caseArm, def []ast.Stmt, rest []ast.Stmt, ok bool) {
	if fd == nil || fd.Body == nil {
		return
	}
	for i, st := range fd.Body.List {
		sw, isSw := st.(*ast.SwitchStmt)
		if !isSw {
			continue
		}
		tag = sw.Tag
		for _, c := range sw.Body.List {
			cc := c.(*ast.CaseClause)
			if cc.List == nil {
				def = cc.Body
			} else {
				arms = append(arms, caseArm{cc.List, cc.Body})
			}
		}
		rest = fd.Body.List[i+1:]
		ok = true
		return
	}
	return
}

// first result expression of a `return a, b` statement that is the only statement of a body
func returned(body []ast.Stmt, idx int) ast.Expr {
	if len(body) != 1 {
		return nil
	}
	rs, ok := body[0].(*ast.ReturnStmt)
	if !ok || len(rs.Results) <= idx {
		return nil
	}
	return rs.Results[idx]
}

func isNil(e ast.Expr) bool {
	id, ok := e.(*ast.Ident)
	return ok && id.Name == "nil"
}

// String -> value switch returning (value, nil) per case and (_, err) otherwise.
func genParseSwitch(p *pkg, fname, leanName, resTy string, val func(ast.Expr) (string, bool)) string {
	fd := p.findFunc("", fname)
	_, arms, def, rest, ok := switchArms(fd)
	if !ok || def != nil {
		fail("%s.%s: expected a switch without default", p.name, fname)
		return ""
	}
	var b strings.Builder
	fmt.Fprintf(&b, "/-- generated from `%s.%s` -/\ndef %s (s : String) : Option %s :=\n", p.name, fname, leanName, resTy)
	for _, a := range arms {
		r := returned(a.body, 0)
		e := returned(a.body, 1)
		if r == nil || e == nil || !isNil(e) {
			fail("%s.%s: case body is not `return v, nil`", p.name, fname)
			return ""
		}
		v, okv := val(r)
		if !okv {
			fail("%s.%s: cannot translate value %s", p.name, fname, exprString(r))
			return ""
		}
		for _, k := range a.keys {
			bl, okb := k.(*ast.BasicLit)
			if !okb || bl.Kind != token.STRING {
				fail("%s.%s: case key is not a string literal", p.name, fname)
				return ""
			}
			ks, _ := strconv.Unquote(bl.Value)
			fmt.Fprintf(&b, "  if s = %s then some %s else\n", leanStr(ks), v)
		}
	}
	e := returned(rest, 1)
	if e == nil || isNil(e) {
		fail("%s.%s: fall-through is not `return _, err`", p.name, fname)
		return ""
	}
	b.WriteString("  none\n\n")
	return b.String()
}

// ---- xml schema ----------------------------------------------------------------------------------

type fieldFact struct{ name, typ, tag string }
type structFact struct {
	pkg, name string
	fields    []fieldFact
}

func (p *pkg) structs() []structFact {
	var out []structFact
	for _, fn := range p.sortedFiles() {
		for _, d := range p.files[fn].Decls {
			gd, ok := d.(*ast.GenDecl)
			if !ok || gd.Tok != token.TYPE {
				continue
			}
			for _, s := range gd.Specs {
				ts := s.(*ast.TypeSpec)
				st, ok := ts.Type.(*ast.StructType)
				if !ok {
					continue
				}
				sf := structFact{pkg: p.name, name: ts.Name.Name}
				hasXML := false
				for _, f := range st.Fields.List {
					tag := ""
					if f.Tag != nil {
						raw, _ := strconv.Unquote(f.Tag.Value)
						tag = structTagGet(raw, "xml")
						if tag != "" {
							hasXML = true
						}
					}
					for _, n := range f.Names {
						sf.fields = append(sf.fields, fieldFact{n.Name, exprString(f.Type), tag})
					}
				}
				if hasXML {
					out = append(out, sf)
				}
			}
		}
	}
	sort.Slice(out, func(i, j int) bool { return out[i].name < out[j].name })
	return out
}

func structTagGet(tag, key string) string {
	for tag != "" {
		i := 0
		for i < len(tag) && tag[i] == ' ' {
			i++
		}
		tag = tag[i:]
		if tag == "" {
			break
		}
		i = 0
		for i < len(tag) && tag[i] > ' ' && tag[i] != ':' && tag[i] != '"' {
			i++
		}
		if i == 0 || i+1 >= len(tag) || tag[i] != ':' || tag[i+1] != '"' {
			break
		}
		name := tag[:i]
		tag = tag[i+1:]
		i = 1
		for i < len(tag) && tag[i] != '"' {
			if tag[i] == '\\' {
				i++
			}
			i++
		}
		if i >= len(tag) {
			break
		}
		q := tag[:i+1]
		tag = tag[i+1:]
		if name == key {
			v, _ := strconv.Unquote(q)
			return v
		}
	}
	return ""
}

// package-level `var X = xml.Name{a, b}` values
func (p *pkg) xmlNames(strs map[string]string) [][3]string {
	var out [][3]string
	for _, fn := range p.sortedFiles() {
		for _, d := range p.files[fn].Decls {
			gd, ok := d.(*ast.GenDecl)
			if !ok || gd.Tok != token.VAR {
				continue
			}
			for _, s := range gd.Specs {
				vs := s.(*ast.ValueSpec)
				for i, n := range vs.Names {
					if i >= len(vs.Values) {
						continue
					}
					cl, ok := vs.Values[i].(*ast.CompositeLit)
					if !ok || exprString(cl.Type) != "xml.Name" || len(cl.Elts) != 2 {
						continue
					}
					part := func(e ast.Expr) string {
						if kv, ok := e.(*ast.KeyValueExpr); ok {
							e = kv.Value
						}
						switch x := e.(type) {
						case *ast.BasicLit:
							v, _ := strconv.Unquote(x.Value)
							return v
						case *ast.Ident:
							if v, ok := strs[x.Name]; ok {
								return v
							}
						}
						fail("%s: xml.Name %s has a component the extractor cannot resolve", p.name, n.Name)
						return "?"
					}
					out = append(out, [3]string{n.Name, part(cl.Elts[0]), part(cl.Elts[1])})
				}
			}
		}
	}
	sort.Slice(out, func(i, j int) bool { return out[i][0] < out[j][0] })
	return out
}

// ---- per-function facts ---------------------------------------------------------------------------

var httpStatus = map[string]int{
	"StatusOK": 200, "StatusCreated": 201, "StatusNoContent": 204, "StatusMultiStatus": 207,
	"StatusPermanentRedirect": 308, "StatusBadRequest": 400, "StatusForbidden": 403, "StatusNotFound": 404,
	"StatusMethodNotAllowed": 405, "StatusConflict": 409, "StatusPreconditionFailed": 412,
	"StatusUnsupportedMediaType": 415, "StatusInternalServerError": 500, "StatusNotImplemented": 501,
	"StatusServiceUnavailable": 503, "StatusMovedPermanently": 301, "StatusFound": 302,
	"StatusUnauthorized": 401, "StatusRequestEntityTooLarge": 413, "StatusInsufficientStorage": 507,
	"StatusLocked": 423, "StatusNotModified": 304, "StatusTemporaryRedirect": 307, "StatusGone": 410,
	"StatusUnprocessableEntity": 422, "StatusBadGateway": 502, "StatusGatewayTimeout": 504, "StatusAccepted": 202,
}

// standard-library calls that change state shared by the whole process: a handler or client that makes one is not
// independent of what other goroutines do meanwhile, however briefly it restores the old value
var processState = map[string]bool{
	"syscall.Umask": true, "syscall.Chdir": true, "syscall.Chroot": true, "syscall.Setuid": true, "syscall.Setgid": true, "syscall.Setenv": true,
	"os.Chdir": true, "os.Setenv": true, "os.Unsetenv": true, "os.Clearenv": true, "os.Exit": true,
	"log.SetOutput": true, "log.SetFlags": true, "log.SetPrefix": true, "rand.Seed": true, "signal.Notify": true, "signal.Ignore": true,
	"debug.SetGCPercent": true, "runtime.GOMAXPROCS": true, "http.Handle": true, "http.HandleFunc": true, "time.LoadLocationFromTZData": false,
}

func funcID(p *pkg, fd *ast.FuncDecl) string {
	r := ""
	if fd.Recv != nil && len(fd.Recv.List) == 1 {
		r = strings.TrimPrefix(exprString(fd.Recv.List[0].Type), "*") + "."
	}
	return p.name + "." + r + fd.Name.Name
}

type funcFacts struct {
	id       string
	statuses []int
	panics   int
	gos      int
	chans    []string // make(chan T, n) -> "T/n" ("T/0" when unbuffered)
	sends    int
	writes   []string // assignments to package-level variables
	events   []string // ordered channel sends/receives, goroutine starts and Close() calls (only kept when a channel is involved)
	file     string   // the source file (base name) the function is declared in
	indexing []string // run-time-checked accesses: x[i], x[a:b], x.(T) without comma-ok (each can panic)
	shapes   []string // the same accesses as shapes (identifiers replaced by _)
	procst   []string // calls that change state of the whole PROCESS (umask, working directory, environment, default loggers …)
	recvw    []string // assignments through a pointer receiver (state kept on a handler / client / reader value)
}

func (p *pkg) funcFacts(globals map[string]bool) []funcFacts {
	var out []funcFacts
	for _, fn := range p.sortedFiles() {
		for _, d := range p.files[fn].Decls {
			fd, ok := d.(*ast.FuncDecl)
			if !ok || fd.Body == nil {
				continue
			}
			ff := funcFacts{id: funcID(p, fd), file: filepath.Base(fn)}
			locals := map[string]bool{}
			recvName := ""
			if fd.Recv != nil && len(fd.Recv.List) == 1 && len(fd.Recv.List[0].Names) == 1 {
				if _, isPtr := fd.Recv.List[0].Type.(*ast.StarExpr); isPtr {
					recvName = fd.Recv.List[0].Names[0].Name
				}
			}
			safeAssert := map[*ast.TypeAssertExpr]bool{}
			lhsIndex := map[ast.Expr]bool{}
			// parameters and receivers shadow globals
			if fd.Recv != nil {
				for _, f := range fd.Recv.List {
					for _, n := range f.Names {
						locals[n.Name] = true
					}
				}
			}
			for _, f := range fd.Type.Params.List {
				for _, n := range f.Names {
					locals[n.Name] = true
				}
			}
			if fd.Type.Results != nil {
				for _, f := range fd.Type.Results.List {
					for _, n := range f.Names {
						locals[n.Name] = true
					}
				}
			}
			ast.Inspect(fd.Body, func(n ast.Node) bool {
				switch x := n.(type) {
				case *ast.SelectorExpr:
					if id, ok := x.X.(*ast.Ident); ok && id.Name == "http" {
						if c, ok := httpStatus[x.Sel.Name]; ok {
							ff.statuses = append(ff.statuses, c)
						} else if strings.HasPrefix(x.Sel.Name, "Status") && x.Sel.Name != "StatusText" {
							fail("%s: unknown http status constant %s", ff.id, x.Sel.Name)
						}
					}
				case *ast.CompositeLit:
					// &HTTPError{Code: 409, …} / &internal.HTTPError{409, …} with a literal code
					if strings.HasSuffix(exprString(x.Type), "HTTPError") {
						for i, el := range x.Elts {
							v := el
							if kv, ok := el.(*ast.KeyValueExpr); ok {
								if exprString(kv.Key) != "Code" {
									continue
								}
								v = kv.Value
							} else if i != 0 {
								continue
							}
							if bl, ok := v.(*ast.BasicLit); ok && bl.Kind == token.INT {
								c, _ := strconv.Atoi(bl.Value)
								ff.statuses = append(ff.statuses, c)
							}
						}
					}
				case *ast.CallExpr:
					if se, ok := x.Fun.(*ast.SelectorExpr); ok {
						if id, ok := se.X.(*ast.Ident); ok && !locals[id.Name] && processState[id.Name+"."+se.Sel.Name] {
							ff.procst = append(ff.procst, id.Name+"."+se.Sel.Name)
						}
					}
					if se, ok := x.Fun.(*ast.SelectorExpr); ok && se.Sel.Name == "Close" {
						ff.events = append(ff.events, "close:"+exprString(se.X))
					}
					if id, ok := x.Fun.(*ast.Ident); ok {
						if id.Name == "panic" {
							ff.panics++
						}
						if id.Name == "make" && len(x.Args) >= 1 {
							if ct, ok := x.Args[0].(*ast.ChanType); ok {
								capa := "0"
								if len(x.Args) >= 2 {
									capa = exprString(x.Args[1])
								}
								ff.chans = append(ff.chans, exprString(ct.Value)+"/"+capa)
							}
						}
					}
				case *ast.IndexExpr:
					if !lhsIndex[x] {
						ff.indexing = append(ff.indexing, exprString(x))
						ff.shapes = append(ff.shapes, shapeString(x))
					}
				case *ast.SliceExpr:
					ff.indexing = append(ff.indexing, exprString(x))
					ff.shapes = append(ff.shapes, shapeString(x))
				case *ast.TypeAssertExpr:
					if x.Type != nil && !safeAssert[x] {
						ff.indexing = append(ff.indexing, exprString(x))
						ff.shapes = append(ff.shapes, shapeString(x))
					}
				case *ast.ValueSpec:
					if len(x.Names) == 2 && len(x.Values) == 1 {
						if ta, ok := x.Values[0].(*ast.TypeAssertExpr); ok {
							safeAssert[ta] = true
						}
					}
				case *ast.GoStmt:
					ff.gos++
					ff.events = append(ff.events, "go")
				case *ast.SendStmt:
					ff.sends++
					ff.events = append(ff.events, "send:"+exprString(x.Chan)+"<-"+exprString(x.Value))
				case *ast.UnaryExpr:
					if x.Op == token.ARROW {
						ff.events = append(ff.events, "recv:"+exprString(x.X))
					}
				case *ast.AssignStmt:
					if len(x.Lhs) == 2 && len(x.Rhs) == 1 {
						if ta, ok := x.Rhs[0].(*ast.TypeAssertExpr); ok {
							safeAssert[ta] = true
						}
						if ie, ok := x.Rhs[0].(*ast.IndexExpr); ok {
							lhsIndex[ie] = true // v, ok := m[k]: a map read, cannot panic
						}
					}
					for _, l := range x.Lhs {
						if recvName != "" && x.Tok != token.DEFINE {
							r := l
							depth := 0
							for {
								switch y := r.(type) {
								case *ast.IndexExpr:
									r = y.X
									depth++
									continue
								case *ast.SelectorExpr:
									r = y.X
									depth++
									continue
								case *ast.StarExpr:
									r = y.X
									depth++
									continue
								}
								break
							}
							if id, ok := r.(*ast.Ident); ok && id.Name == recvName && depth > 0 {
								ff.recvw = append(ff.recvw, exprString(l))
							}
						}
						root := l
						for {
							switch y := root.(type) {
							case *ast.IndexExpr:
								root = y.X
								continue
							case *ast.SelectorExpr:
								root = y.X
								continue
							case *ast.StarExpr:
								root = y.X
								continue
							}
							break
						}
						if id, ok := root.(*ast.Ident); ok {
							if x.Tok == token.DEFINE {
								locals[id.Name] = true
							} else if globals[id.Name] && !locals[id.Name] {
								ff.writes = append(ff.writes, id.Name)
							}
						}
					}
				case *ast.IncDecStmt:
					if id, ok := x.X.(*ast.Ident); ok && globals[id.Name] && !locals[id.Name] {
						ff.writes = append(ff.writes, id.Name)
					}
				case *ast.DeclStmt:
					if gd, ok := x.Decl.(*ast.GenDecl); ok {
						for _, s := range gd.Specs {
							if vs, ok := s.(*ast.ValueSpec); ok {
								for _, n := range vs.Names {
									locals[n.Name] = true
								}
							}
						}
					}
				case *ast.RangeStmt:
					if x.Tok == token.DEFINE {
						if id, ok := x.Key.(*ast.Ident); ok {
							locals[id.Name] = true
						}
						if id, ok := x.Value.(*ast.Ident); ok {
							locals[id.Name] = true
						}
					}
				}
				return true
			})
			sort.Ints(ff.statuses)
			out = append(out, ff)
		}
	}
	sort.Slice(out, func(i, j int) bool { return out[i].id < out[j].id })
	return out
}

func (p *pkg) globals() []string {
	var g []string
	for _, fn := range p.sortedFiles() {
		for _, d := range p.files[fn].Decls {
			gd, ok := d.(*ast.GenDecl)
			if !ok || gd.Tok != token.VAR {
				continue
			}
			for _, s := range gd.Specs {
				for _, n := range s.(*ast.ValueSpec).Names {
					if n.Name != "_" {
						g = append(g, n.Name)
					}
				}
			}
		}
	}
	sort.Strings(g)
	return g
}

// the `switch r.Method` of internal.Handler.ServeHTTP: method -> handler expression
func dispatchTable(p *pkg) [][2]string {
	fd := p.findFunc("Handler", "ServeHTTP")
	var out [][2]string
	if fd == nil {
		fail("internal.Handler.ServeHTTP not found")
		return nil
	}
	found := false
	ast.Inspect(fd.Body, func(n ast.Node) bool {
		sw, ok := n.(*ast.SwitchStmt)
		if !ok || exprString(sw.Tag) != "r.Method" {
			return true
		}
		found = true
		for _, c := range sw.Body.List {
			cc := c.(*ast.CaseClause)
			h := "?"
			if len(cc.Body) >= 1 {
				if as, ok := cc.Body[0].(*ast.AssignStmt); ok && len(as.Rhs) == 1 {
					if ce, ok := as.Rhs[0].(*ast.CallExpr); ok {
						h = exprString(ce.Fun)
					}
				}
			}
			if cc.List == nil {
				out = append(out, [2]string{"*", h})
			}
			for _, k := range cc.List {
				m := exprString(k)
				switch x := k.(type) {
				case *ast.BasicLit:
					m, _ = strconv.Unquote(x.Value)
				case *ast.SelectorExpr:
					m = strings.ToUpper(strings.TrimPrefix(x.Sel.Name, "Method"))
				}
				out = append(out, [2]string{m, h})
			}
		}
		return false
	})
	if !found {
		fail("internal.Handler.ServeHTTP: no `switch r.Method`")
	}
	return out
}

func writeIfChanged(path, content string) {
	old, err := os.ReadFile(path)
	if err == nil && string(old) == content {
		return
	}
	if err := os.WriteFile(path, []byte(content), 0644); err != nil {
		fail("write %s: %v", path, err)
	}
}

func main() {
	if len(os.Args) != 3 {
		fmt.Fprintln(os.Stderr, "usage: extract <repo> <outdir>")
		os.Exit(2)
	}
	repo, outdir := os.Args[1], os.Args[2]
	os.MkdirAll(outdir, 0755)
	pkgs := map[string]*pkg{}
	for _, d := range []string{".", "internal", "caldav", "carddav"} {
		pkgs[d] = loadPkg(repo, d)
	}
	internal, caldav, carddav, root := pkgs["internal"], pkgs["caldav"], pkgs["carddav"], pkgs["."]

	var b strings.Builder
	b.WriteString("/-! GENERATED by extract/ from /repo's Go sources on every run — do not edit. -/\nnamespace GoWebdav.Generated\n\n")

	// --- codecs as definitions
	_, iints := internal.consts()
	depthVal := func(e ast.Expr) (string, bool) {
		if id, ok := e.(*ast.Ident); ok {
			if v, ok := iints[id.Name]; ok {
				return leanInt(v), true
			}
		}
		return "", false
	}
	b.WriteString(genParseSwitch(internal, "ParseDepth", "parseDepth", "Int", depthVal))
	boolVal := func(e ast.Expr) (string, bool) {
		if id, ok := e.(*ast.Ident); ok && (id.Name == "true" || id.Name == "false") {
			return id.Name, true
		}
		return "", false
	}
	b.WriteString(genParseSwitch(internal, "ParseOverwrite", "parseOverwrite", "Bool", boolVal))
	b.WriteString(genDepthString(internal, iints))
	b.WriteString(genFormatOverwrite(internal))
	b.WriteString(genNegate(caldav, "caldavNegate"))
	b.WriteString(genNegate(carddav, "carddavNegate"))
	cstrs, _ := carddav.consts()
	b.WriteString(genEnumList(carddav, "filterTest", "carddavFilterTests", cstrs))
	b.WriteString(genEnumList(carddav, "matchType", "carddavMatchTypes", cstrs))

	// --- dispatch
	b.WriteString("/-- `switch r.Method` of internal.Handler.ServeHTTP: (method, handler); `*` = default -/\ndef dispatch : List (String × String) := [\n")
	for i, kv := range dispatchTable(internal) {
		sep := ","
		if i == 0 {
			sep = " "
		}
		fmt.Fprintf(&b, "  %s(%s, %s)\n", sep, leanStr(kv[0]), leanStr(kv[1]))
	}
	b.WriteString("]\n\n")

	// --- constants
	for _, pk := range []*pkg{internal, caldav, carddav, root} {
		strs, ints := pk.consts()
		var ks []string
		for k := range strs {
			ks = append(ks, k)
		}
		sort.Strings(ks)
		fmt.Fprintf(&b, "def %sStringConsts : List (String × String) := [", pk.name)
		for i, k := range ks {
			if i > 0 {
				b.WriteString(", ")
			}
			fmt.Fprintf(&b, "(%s, %s)", leanStr(k), leanStr(strs[k]))
		}
		b.WriteString("]\n")
		ks = nil
		for k := range ints {
			ks = append(ks, k)
		}
		sort.Strings(ks)
		fmt.Fprintf(&b, "def %sIntConsts : List (String × Int) := [", pk.name)
		for i, k := range ks {
			if i > 0 {
				b.WriteString(", ")
			}
			fmt.Fprintf(&b, "(%s, %s)", leanStr(k), leanInt(ints[k]))
		}
		b.WriteString("]\n")
		fmt.Fprintf(&b, "def %sXmlNames : List (String × String × String) := [", pk.name)
		for i, n := range pk.xmlNames(strs) {
			if i > 0 {
				b.WriteString(", ")
			}
			fmt.Fprintf(&b, "(%s, %s, %s)", leanStr(n[0]), leanStr(n[1]), leanStr(n[2]))
		}
		b.WriteString("]\n\n")
	}
	b.WriteString("end GoWebdav.Generated\n")
	writeIfChanged(filepath.Join(outdir, "Tables.lean"), b.String())

	// --- schema
	var s strings.Builder
	s.WriteString("/-! GENERATED by extract/ from /repo's Go sources on every run — do not edit. -/\nnamespace GoWebdav.Generated\n\n")
	s.WriteString("/-- every struct carrying `xml:\"…\"` tags: (package.struct, [(field, Go type, xml tag)]) -/\n")
	for _, pk := range []*pkg{internal, root, caldav, carddav} {
		fmt.Fprintf(&s, "def %sSchema : List (String × List (String × String × String)) := [\n", pk.name)
		for i, st := range pk.structs() {
			sep := ","
			if i == 0 {
				sep = " "
			}
			fmt.Fprintf(&s, "  %s(%s, [", sep, leanStr(st.name))
			for j, f := range st.fields {
				if j > 0 {
					s.WriteString(", ")
				}
				fmt.Fprintf(&s, "(%s, %s, %s)", leanStr(f.name), leanStr(f.typ), leanStr(f.tag))
			}
			s.WriteString("])\n")
		}
		s.WriteString("]\n\n")
	}
	s.WriteString("end GoWebdav.Generated\n")
	writeIfChanged(filepath.Join(outdir, "Schema.lean"), s.String())

	// --- per-function facts
	var f strings.Builder
	f.WriteString("/-! GENERATED by extract/ from /repo's Go sources on every run — do not edit. -/\nnamespace GoWebdav.Generated\n\n")
	for _, pk := range []*pkg{internal, root, caldav, carddav} {
		gl := pk.globals()
		gm := map[string]bool{}
		for _, g := range gl {
			gm[g] = true
		}
		facts := pk.funcFacts(gm)
		fmt.Fprintf(&f, "/-- status codes named per function (http.StatusXxx selectors and literal HTTPError codes) -/\ndef %sStatusSites : List (String × List Nat) := [", pk.name)
		first := true
		for _, ff := range facts {
			if len(ff.statuses) == 0 {
				continue
			}
			if !first {
				f.WriteString(",")
			}
			first = false
			var cs []string
			for _, c := range ff.statuses {
				cs = append(cs, fmt.Sprint(c))
			}
			fmt.Fprintf(&f, "\n  (%s, [%s])", leanStr(ff.id), strings.Join(cs, ", "))
		}
		f.WriteString("]\n")
		fmt.Fprintf(&f, "def %sPanicSites : List (String × Nat) := [", pk.name)
		first = true
		for _, ff := range facts {
			if ff.panics == 0 {
				continue
			}
			if !first {
				f.WriteString(", ")
			}
			first = false
			fmt.Fprintf(&f, "(%s, %d)", leanStr(ff.id), ff.panics)
		}
		f.WriteString("]\n")
		fmt.Fprintf(&f, "/-- goroutines started, channels made (elem/capacity), channel sends, per function -/\ndef %sConcurrency : List (String × Nat × List String × Nat) := [", pk.name)
		first = true
		for _, ff := range facts {
			if ff.gos == 0 && len(ff.chans) == 0 && ff.sends == 0 {
				continue
			}
			if !first {
				f.WriteString(", ")
			}
			first = false
			var cs []string
			for _, c := range ff.chans {
				cs = append(cs, leanStr(c))
			}
			fmt.Fprintf(&f, "(%s, %d, [%s], %d)", leanStr(ff.id), ff.gos, strings.Join(cs, ", "), ff.sends)
		}
		f.WriteString("]\n")
		fmt.Fprintf(&f, "/-- order of channel operations, goroutine starts and Close() calls in functions that use a channel -/\ndef %sChanEvents : List (String × List String) := [", pk.name)
		first = true
		for _, ff := range facts {
			uses := false
			for _, e := range ff.events {
				if strings.HasPrefix(e, "send:") || strings.HasPrefix(e, "recv:") {
					uses = true
				}
			}
			if !uses {
				continue
			}
			if !first {
				f.WriteString(", ")
			}
			first = false
			var es []string
			for _, e := range ff.events {
				es = append(es, leanStr(e))
			}
			fmt.Fprintf(&f, "(%s, [%s])", leanStr(ff.id), strings.Join(es, ", "))
		}
		f.WriteString("]\n")
		fmt.Fprintf(&f, "def %sGlobals : List String := [", pk.name)
		for i, g := range gl {
			if i > 0 {
				f.WriteString(", ")
			}
			f.WriteString(leanStr(g))
		}
		f.WriteString("]\n")
		fmt.Fprintf(&f, "/-- writes to package-level variables inside function bodies -/\ndef %sGlobalWrites : List (String × List String) := [", pk.name)
		first = true
		for _, ff := range facts {
			if len(ff.writes) == 0 {
				continue
			}
			if !first {
				f.WriteString(", ")
			}
			first = false
			var ws []string
			for _, w := range ff.writes {
				ws = append(ws, leanStr(w))
			}
			fmt.Fprintf(&f, "(%s, [%s])", leanStr(ff.id), strings.Join(ws, ", "))
		}
		f.WriteString("]\n")
		fmt.Fprintf(&f, "/-- run-time-checked accesses per function: index and slice expressions, type assertions without comma-ok (sorted) -/\ndef %sIndexSites : List (String × List String) := [", pk.name)
		first = true
		for _, ff := range facts {
			if len(ff.indexing) == 0 {
				continue
			}
			if !first {
				f.WriteString(",")
			}
			first = false
			sort.Strings(ff.indexing)
			var ws []string
			for _, w := range ff.indexing {
				ws = append(ws, leanStr(w))
			}
			fmt.Fprintf(&f, "\n  (%s, [%s])", leanStr(ff.id), strings.Join(ws, ", "))
		}
		f.WriteString("]\n")
		fmt.Fprintf(&f, "/-- assignments through a pointer receiver, per method (state kept across calls on a handler, client or reader value) -/\ndef %sReceiverWrites : List (String × List String) := [", pk.name)
		first = true
		for _, ff := range facts {
			if len(ff.recvw) == 0 {
				continue
			}
			if !first {
				f.WriteString(",")
			}
			first = false
			var ws []string
			for _, w := range ff.recvw {
				ws = append(ws, leanStr(w))
			}
			fmt.Fprintf(&f, "\n  (%s, [%s])", leanStr(ff.id), strings.Join(ws, ", "))
		}
		f.WriteString("]\n")
		// the receiver types that have such writes (sorted, unique)
		rt := map[string]bool{}
		for _, ff := range facts {
			if len(ff.recvw) == 0 {
				continue
			}
			parts := strings.Split(ff.id, ".")
			if len(parts) == 3 {
				rt[parts[1]] = true
			}
		}
		var rts []string
		for k := range rt {
			rts = append(rts, leanStr(k))
		}
		sort.Strings(rts)
		fmt.Fprintf(&f, "/-- calls that change state of the whole process (umask, working directory, environment, default logger …), per function -/\ndef %sProcessStateCalls : List (String × List String) := [", pk.name)
		first = true
		for _, ff := range facts {
			if len(ff.procst) == 0 {
				continue
			}
			if !first {
				f.WriteString(", ")
			}
			first = false
			var ws []string
			for _, w := range ff.procst {
				ws = append(ws, leanStr(w))
			}
			fmt.Fprintf(&f, "(%s, [%s])", leanStr(ff.id), strings.Join(ws, ", "))
		}
		f.WriteString("]\n")
		fmt.Fprintf(&f, "/-- the receiver types whose methods assign through the receiver -/\ndef %sReceiverWriteTypes : List String := [%s]\n", pk.name, strings.Join(rts, ", "))
		// per-FILE aggregates in a form that renaming an identifier or moving code between the functions of a file does
		// not change: these are what the pinned obligations compare
		files := map[string]bool{}
		shapesBy, statusBy, panicsBy := map[string][]string{}, map[string][]int{}, map[string]int{}
		for _, ff := range facts {
			files[ff.file] = true
			shapesBy[ff.file] = append(shapesBy[ff.file], ff.shapes...)
			statusBy[ff.file] = append(statusBy[ff.file], ff.statuses...)
			panicsBy[ff.file] += ff.panics
		}
		var fl []string
		for k := range files {
			fl = append(fl, k)
		}
		sort.Strings(fl)
		fmt.Fprintf(&f, "/-- run-time-checked accesses per source file, as shapes (identifiers replaced by _), sorted -/\ndef %sIndexShapesByFile : List (String × List String) := [", pk.name)
		first = true
		for _, k := range fl {
			if len(shapesBy[k]) == 0 {
				continue
			}
			if !first {
				f.WriteString(",")
			}
			first = false
			sort.Strings(shapesBy[k])
			var ws []string
			for _, w := range shapesBy[k] {
				ws = append(ws, leanStr(w))
			}
			fmt.Fprintf(&f, "\n  (%s, [%s])", leanStr(k), strings.Join(ws, ", "))
		}
		f.WriteString("]\n")
		fmt.Fprintf(&f, "/-- the set of status codes named in each source file, sorted -/\ndef %sStatusByFile : List (String × List Nat) := [", pk.name)
		first = true
		for _, k := range fl {
			if len(statusBy[k]) == 0 {
				continue
			}
			if !first {
				f.WriteString(", ")
			}
			first = false
			sort.Ints(statusBy[k])
			var ws []string
			for i, w := range statusBy[k] {
				if i > 0 && statusBy[k][i-1] == w {
					continue // a SET: the same code named at several places of a file, or behind a shared helper, is one entry
				}
				ws = append(ws, fmt.Sprint(w))
			}
			fmt.Fprintf(&f, "(%s, [%s])", leanStr(k), strings.Join(ws, ", "))
		}
		f.WriteString("]\n")
		fmt.Fprintf(&f, "/-- explicit panic() calls per source file -/\ndef %sPanicsByFile : List (String × Nat) := [", pk.name)
		first = true
		for _, k := range fl {
			if panicsBy[k] == 0 {
				continue
			}
			if !first {
				f.WriteString(", ")
			}
			first = false
			fmt.Fprintf(&f, "(%s, %d)", leanStr(k), panicsBy[k])
		}
		f.WriteString("]\n\n")
	}
	f.WriteString("end GoWebdav.Generated\n")
	writeIfChanged(filepath.Join(outdir, "Facts.lean"), f.String())

	if len(failures) > 0 {
		for _, x := range failures {
			fmt.Println("extract: " + x)
		}
		os.Exit(1)
	}
	fmt.Println("extract: ok")
}

// func (d Depth) String() string { switch d { case DepthZero: return "0" … } panic(...) }
func genDepthString(p *pkg, ints map[string]int) string {
	fd := p.findFunc("Depth", "String")
	_, arms, def, rest, ok := switchArms(fd)
	if !ok || def != nil {
		fail("internal.Depth.String: expected a switch without default")
		return ""
	}
	var b strings.Builder
	b.WriteString("/-- generated from `internal.Depth.String` (`none` = the explicit panic) -/\ndef depthString (d : Int) : Option String :=\n")
	for _, a := range arms {
		r := returned(a.body, 0)
		bl, okb := r.(*ast.BasicLit)
		if r == nil || !okb {
			fail("internal.Depth.String: case body is not `return \"lit\"`")
			return ""
		}
		v, _ := strconv.Unquote(bl.Value)
		for _, k := range a.keys {
			id, oki := k.(*ast.Ident)
			n, okn := ints[exprString(k)]
			if !oki || !okn {
				fail("internal.Depth.String: case key %s is not a known constant", exprString(k))
				return ""
			}
			_ = id
			fmt.Fprintf(&b, "  if d = %s then some %s else\n", leanInt(n), leanStr(v))
		}
	}
	if len(rest) != 1 {
		fail("internal.Depth.String: fall-through is not a single panic")
		return ""
	}
	if es, ok := rest[0].(*ast.ExprStmt); !ok || !strings.HasPrefix(exprString(es.X), "panic(") {
		fail("internal.Depth.String: fall-through is not a panic")
		return ""
	}
	b.WriteString("  none\n\n")
	return b.String()
}

// func FormatOverwrite(overwrite bool) string { if overwrite { return "T" } else { return "F" } }
func genFormatOverwrite(p *pkg) string {
	fd := p.findFunc("", "FormatOverwrite")
	if fd == nil || len(fd.Body.List) != 1 {
		fail("internal.FormatOverwrite: unexpected shape")
		return ""
	}
	is, ok := fd.Body.List[0].(*ast.IfStmt)
	if !ok || exprString(is.Cond) != fd.Type.Params.List[0].Names[0].Name || is.Else == nil {
		fail("internal.FormatOverwrite: expected `if overwrite {…} else {…}`")
		return ""
	}
	lit := func(body []ast.Stmt) (string, bool) {
		r := returned(body, 0)
		bl, ok := r.(*ast.BasicLit)
		if r == nil || !ok {
			return "", false
		}
		v, _ := strconv.Unquote(bl.Value)
		return v, true
	}
	eb, ok2 := is.Else.(*ast.BlockStmt)
	t, ok1 := lit(is.Body.List)
	if !ok1 || !ok2 {
		fail("internal.FormatOverwrite: branches are not string returns")
		return ""
	}
	f, ok3 := lit(eb.List)
	if !ok3 {
		fail("internal.FormatOverwrite: branches are not string returns")
		return ""
	}
	return fmt.Sprintf("/-- generated from `internal.FormatOverwrite` -/\ndef formatOverwrite (b : Bool) : String := if b then %s else %s\n\n", leanStr(t), leanStr(f))
}

// negateCondition.UnmarshalText (switch s := string(b); s { case "yes": *nc = true … default: return err }) and MarshalText
func genNegate(p *pkg, leanName string) string {
	fd := p.findFunc("negateCondition", "UnmarshalText")
	_, arms, def, _, ok := switchArms(fd)
	if !ok || def == nil {
		fail("%s.negateCondition.UnmarshalText: expected a switch with default", p.name)
		return ""
	}
	var b strings.Builder
	fmt.Fprintf(&b, "/-- generated from `%s.negateCondition.UnmarshalText` -/\ndef %sParse (s : String) : Option Bool :=\n", p.name, leanName)
	for _, a := range arms {
		if len(a.body) != 1 {
			fail("%s.negateCondition.UnmarshalText: unexpected case body", p.name)
			return ""
		}
		as, ok := a.body[0].(*ast.AssignStmt)
		if !ok || len(as.Rhs) != 1 || exprString(as.Lhs[0]) != "*nc" {
			fail("%s.negateCondition.UnmarshalText: case body is not `*nc = v`", p.name)
			return ""
		}
		v := exprString(as.Rhs[0])
		if v != "true" && v != "false" {
			fail("%s.negateCondition.UnmarshalText: value %s", p.name, v)
			return ""
		}
		for _, k := range a.keys {
			bl, okb := k.(*ast.BasicLit)
			if !okb {
				fail("%s.negateCondition.UnmarshalText: key", p.name)
				return ""
			}
			ks, _ := strconv.Unquote(bl.Value)
			fmt.Fprintf(&b, "  if s = %s then some %s else\n", leanStr(ks), v)
		}
	}
	if r := returned(def, 0); r == nil || isNil(r) {
		fail("%s.negateCondition.UnmarshalText: default does not return an error", p.name)
		return ""
	}
	b.WriteString("  none\n\n")
	// MarshalText: if nc { return []byte("yes"), nil }; return nil, nil
	md := p.findFunc("negateCondition", "MarshalText")
	yes := ""
	if md != nil && len(md.Body.List) == 2 {
		if is, ok := md.Body.List[0].(*ast.IfStmt); ok && exprString(is.Cond) == "nc" {
			if r := returned(is.Body.List, 0); r != nil {
				if ce, ok := r.(*ast.CallExpr); ok && len(ce.Args) == 1 {
					if bl, ok := ce.Args[0].(*ast.BasicLit); ok {
						yes, _ = strconv.Unquote(bl.Value)
					}
				}
			}
		}
		if r := returned(md.Body.List[1:], 0); r == nil || !isNil(r) {
			yes = ""
		}
	}
	if yes == "" {
		fail("%s.negateCondition.MarshalText: unexpected shape", p.name)
		return ""
	}
	fmt.Fprintf(&b, "/-- generated from `%s.negateCondition.MarshalText` (`none` = attribute omitted) -/\ndef %sFormat (b : Bool) : Option String := if b then some %s else none\n\n", p.name, leanName, leanStr(yes))
	return b.String()
}

// filterTest/matchType.UnmarshalText: switch T(b) { case A, B: *x = …; return nil  default: return err }
func genEnumList(p *pkg, typ, leanName string, strs map[string]string) string {
	fd := p.findFunc(typ, "UnmarshalText")
	_, arms, def, _, ok := switchArms(fd)
	if !ok || def == nil || len(arms) != 1 {
		fail("%s.%s.UnmarshalText: expected a switch with one case list and a default", p.name, typ)
		return ""
	}
	if r := returned(def, 0); r == nil || isNil(r) {
		fail("%s.%s.UnmarshalText: default does not return an error", p.name, typ)
		return ""
	}
	var vals []string
	for _, k := range arms[0].keys {
		v, ok := strs[exprString(k)]
		if !ok {
			fail("%s.%s.UnmarshalText: case %s is not a string constant", p.name, typ, exprString(k))
			return ""
		}
		vals = append(vals, leanStr(v))
	}
	return fmt.Sprintf("/-- generated from `%s.%s.UnmarshalText`: the accepted texts -/\ndef %s : List String := [%s]\n\n", p.name, typ, leanName, strings.Join(vals, ", "))
}
