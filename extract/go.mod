module verif/extract

go 1.13
